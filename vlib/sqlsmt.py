"""E3 — translate the WHERE clause emitted by cogent3.core.annotation_db into a z3 formula.

Grammar (everything the real code can emit):
  expr  := term (OR term)*
  term  := fact (AND fact)*
  fact  := '(' expr ')' | atom
  atom  := operand cmp operand | col LIKE ? | col IN (?,?,..)
  operand := identifier (column or query sentinel) | integer literal | ?
Placeholders `?` consume the bound values in order.
"""
from __future__ import annotations

import re

import z3

TOK = re.compile(r"\s*(>=|<=|!=|=|<|>|\(|\)|,|\?|[A-Za-z_][A-Za-z_0-9]*|-?\d+)")


class SqlParseError(Exception):
    pass


def tokenize(s):
    s = s.strip().rstrip(";")
    out, i = [], 0
    while i < len(s):
        m = TOK.match(s, i)
        if not m:
            if s[i:].strip() == "":
                break
            raise SqlParseError(f"cannot tokenise at {s[i:i+20]!r}")
        out.append(m.group(1))
        i = m.end()
    return out


class Parser:
    def __init__(self, tokens, values, env, like_model):
        self.t = tokens
        self.i = 0
        self.values = list(values or [])
        self.vi = 0
        self.env = env  # name -> z3 term (columns and query sentinels)
        self.like_model = like_model  # callable(col_term, bound_value) -> z3 Bool

    def peek(self):
        return self.t[self.i] if self.i < len(self.t) else None

    def eat(self, tok=None):
        cur = self.peek()
        if tok is not None and (cur is None or cur.upper() != tok):
            raise SqlParseError(f"expected {tok}, got {cur}")
        self.i += 1
        return cur

    def next_value(self):
        if self.vi >= len(self.values):
            raise SqlParseError("more placeholders than bound values")
        v = self.values[self.vi]
        self.vi += 1
        return v

    def expr(self):
        terms = [self.term()]
        while self.peek() is not None and self.peek().upper() == "OR":
            self.eat()
            terms.append(self.term())
        return z3.Or(*terms) if len(terms) > 1 else terms[0]

    def term(self):
        facts = [self.fact()]
        while self.peek() is not None and self.peek().upper() == "AND":
            self.eat()
            facts.append(self.fact())
        return z3.And(*facts) if len(facts) > 1 else facts[0]

    def fact(self):
        if self.peek() == "(":
            self.eat()
            e = self.expr()
            self.eat(")")
            return e
        return self.atom()

    def operand(self):
        tok = self.eat()
        if tok is None:
            raise SqlParseError("unexpected end")
        if tok == "?":
            return ("val", self.next_value())
        if re.fullmatch(r"-?\d+", tok):
            return ("term", z3.IntVal(int(tok)))
        if tok in self.env:
            return ("term", self.env[tok])
        raise SqlParseError(f"unknown identifier {tok!r}")

    def atom(self):
        left = self.operand()
        op = self.eat()
        if op is None:
            raise SqlParseError("dangling operand")
        opu = op.upper()
        if opu == "LIKE":
            self.eat("?")
            val = self.next_value()
            return self.like_model(left[1], val)
        if opu == "IN":
            self.eat("(")
            alts = []
            while True:
                self.eat("?")
                alts.append(self._cmp("=", left, ("val", self.next_value())))
                if self.peek() == ",":
                    self.eat()
                    continue
                break
            self.eat(")")
            return z3.Or(*alts)
        right = self.operand()
        return self._cmp(op, left, right)

    def _lift(self, x, like):
        kind, v = x
        if kind == "term":
            return v
        # bound python value -> z3 term; sentinel objects carry their own term
        if hasattr(v, "z3term"):
            return v.z3term
        if isinstance(v, bool):
            return z3.IntVal(int(v))
        if isinstance(v, int):
            return z3.IntVal(v)
        if isinstance(v, str):
            return z3.StringVal(v)
        raise SqlParseError(f"cannot lift bound value {v!r}")

    def _cmp(self, op, left, right):
        a = self._lift(left, None)
        b = self._lift(right, None)
        if op == "=":
            return a == b
        if op == "!=":
            return a != b
        if op == "<":
            return a < b
        if op == "<=":
            return a <= b
        if op == ">":
            return a > b
        if op == ">=":
            return a >= b
        raise SqlParseError(f"unknown operator {op}")


def where_of(sql):
    """split 'SELECT ... FROM t WHERE cond;' -> (head, cond or None)"""
    m = re.search(r"\bWHERE\b", sql, re.I)
    if not m:
        return sql.strip().rstrip(";"), None
    return sql[: m.start()].strip(), sql[m.end():].strip().rstrip(";")


def translate(where, values, env, like_model):
    p = Parser(tokenize(where), values, env, like_model)
    f = p.expr()
    if p.peek() is not None:
        raise SqlParseError(f"trailing tokens {p.t[p.i:]}")
    if p.vi != len(p.values):
        raise SqlParseError(f"{len(p.values) - p.vi} bound values unused")
    return f
