"""Obligation model, sharded runner, evidence writer, violation / known-finding protocol.

Every obligation is decided in its own OS process (vlib.worker) so that module-global
rebinding done by a harness never leaks, and so that 16 run at a time.

Verdict vocabulary (see DESIGN.md section 0):
  holds         solver exhausted every path / returned unsat, inside the stated bounds
  cex           solver produced concrete inputs (then replayed in a plain process)
  inconclusive  unknown / timeout / not confirmed / unable to meet precondition / error
"""
from __future__ import annotations

import dataclasses
import hashlib
import json
import os
import subprocess
import sys
import time
from concurrent.futures import ThreadPoolExecutor
from pathlib import Path

VERIF = Path("/verif")
REPO = Path(os.environ.get("VERIF_REPO", "/repo"))  # overridden only by tools/try_seed_wt.sh
PY = str(VERIF / ".venv/bin/python")
EXIT_OK, EXIT_VIOLATION, EXIT_HARNESS = 0, 1, 3


@dataclasses.dataclass
class Ob:
    """One proof obligation = one solver run in one process."""

    name: str  # unique within the property
    module: str  # e.g. props.c08
    factory: str  # function in module; factory(**args) -> harness fn (crosshair) or result dict (direct)
    args: dict = dataclasses.field(default_factory=dict)
    kind: str = "crosshair"  # crosshair | direct
    timeout: float = 120.0  # solver budget (CPU s per condition for crosshair)
    twins: tuple = ("end",)  # reachability tags that must each yield a counterexample
    optional: bool = False  # attempted, reported, never affects the exit code when undecided
    group: str = ""  # for reporting
    per_path_timeout: float | None = None
    expect_known: str | None = None  # key of a known finding this strict obligation is expected to hit
    # how far the solver reaches into the code: "symbolic" = inputs stay symbolic along every path (CrossHair / psx);
    # "realised-input" = the code hands its input to C level at once, so the solver picks every value of a bounded input domain
    # (one mixed-radix integer) and the body then runs concretely: bounded-exhaustive, the weakest grade
    grade: str = "symbolic"

    def key(self):
        return self.name


def _run_worker(ob: Ob, twin: str | None, plain_cex: dict | None = None, wall: float | None = None):
    req = {
        "module": ob.module,
        "factory": ob.factory,
        "args": ob.args,
        "kind": ob.kind,
        "timeout": ob.timeout if twin is None else min(ob.timeout, 90.0),
        "per_path_timeout": ob.per_path_timeout,
        "twin": twin,
        "replay": plain_cex,
    }
    env = dict(os.environ)
    env["PYTHONPATH"] = f"{VERIF}:" + env.get("PYTHONPATH", "")
    env["PYTHONDONTWRITEBYTECODE"] = "1"
    env["PYTHONHASHSEED"] = "0"
    env.setdefault("NUMBA_CACHE_DIR", str(VERIF / ".numba_cache"))
    env.setdefault("NUMBA_DISABLE_JIT", "0")
    if twin is not None:
        env["VTWIN"] = twin
    else:
        env.pop("VTWIN", None)
    if plain_cex is not None:
        env["VPLAIN"] = "1"
    else:
        env.pop("VPLAIN", None)
    t0 = time.time()
    wall = wall or (req["timeout"] * 1.6 + 90)
    try:
        p = subprocess.run(
            [PY, "-m", "vlib.worker"],
            input=json.dumps(req),
            capture_output=True,
            text=True,
            timeout=wall,
            env=env,
            cwd=str(VERIF),
        )
    except subprocess.TimeoutExpired:
        return {"status": "inconclusive", "detail": f"wall timeout {wall:.0f}s", "wall_s": time.time() - t0}
    out = None
    for line in reversed(p.stdout.splitlines()):
        if line.startswith("@@RESULT "):
            try:
                out = json.loads(line[len("@@RESULT "):])
            except Exception:
                out = None
            break
    if out is None:
        out = {
            "status": "inconclusive",
            "detail": f"worker died rc={p.returncode}: " + (p.stderr or p.stdout)[-1500:],
        }
    out["wall_s"] = round(time.time() - t0, 2)
    return out


def _req_of(ob: Ob, twin):
    return {
        "module": ob.module,
        "factory": ob.factory,
        "args": ob.args,
        "kind": ob.kind,
        "timeout": ob.timeout if twin is None else min(ob.timeout, 90.0),
        "per_path_timeout": ob.per_path_timeout,
        "twin": twin,
        "replay": None,
    }


def _run_batch(tasks):
    """tasks: list of (ob, twin) sharing module and kind; one worker process runs them in sequence (amortises ~5 s of imports)."""
    reqs = [_req_of(o, tw) for o, tw in tasks]
    env = dict(os.environ)
    env["PYTHONPATH"] = f"{VERIF}:" + env.get("PYTHONPATH", "")
    env["PYTHONDONTWRITEBYTECODE"] = "1"
    env["PYTHONHASHSEED"] = "0"
    env.setdefault("NUMBA_CACHE_DIR", str(VERIF / ".numba_cache"))
    env.pop("VTWIN", None)
    env.pop("VPLAIN", None)
    wall = sum(r["timeout"] * 1.6 + 60 for r in reqs)
    t0 = time.time()
    outs = {}
    try:
        p = subprocess.run([PY, "-m", "vlib.worker"], input=json.dumps({"batch": reqs}), capture_output=True, text=True, timeout=wall, env=env, cwd=str(VERIF))
        stdout, err = p.stdout, p.stderr
        rc = p.returncode
    except subprocess.TimeoutExpired as e:
        stdout = e.stdout.decode() if isinstance(e.stdout, bytes) else (e.stdout or "")
        err, rc = "wall timeout", -9
    for line in stdout.splitlines():
        if line.startswith("@@RESULT "):
            try:
                d = json.loads(line[len("@@RESULT "):])
                outs[d["i"]] = d["out"]
            except Exception:
                pass
    res = []
    for i in range(len(reqs)):
        if i in outs:
            res.append(outs[i])
        else:
            res.append({"status": "inconclusive", "detail": f"worker died rc={rc} before this request finished: {(err or '')[-600:]}", "wall_s": round(time.time() - t0, 2)})
    return res


def source_hashes(files):
    res = {}
    for f in files:
        p = REPO / f
        try:
            res[f] = hashlib.sha256(p.read_bytes()).hexdigest()[:16]
        except OSError:
            res[f] = "missing"
    return res


def load_known(prop_id):
    known, fixed = {}, {}
    p = VERIF / "known_findings.txt"
    if p.exists():
        for line in p.read_text().splitlines():
            line = line.strip()
            if not line or line.startswith("#"):
                continue
            head, _, rest = line.partition(" ")
            kv = {}
            toks = rest.split(" ")
            desc = []
            for t in toks:
                if "=" in t and not desc and t.split("=")[0] in ("property", "key", "commit"):
                    k, v = t.split("=", 1)
                    kv[k] = v
                else:
                    desc.append(t)
            if kv.get("property") != prop_id:
                continue
            if head == "known:":
                known[kv.get("key", "")] = " ".join(desc)
            elif head == "fixed:":
                fixed[kv.get("key", "")] = " ".join(desc)
    return known, fixed


def run_property(spec, tier: str, only: str | None = None, jobs: int = 16):
    """spec: module object with PROPERTY_ID, obligations(tier) -> [Ob], ENCODED (list of (file, [qualnames])),
    BOUNDS (dict tier -> str list), ASSUMPTIONS, OUTSIDE, optional validate() -> (ok, detail) run first,
    classify(ob_name, args, cex) -> known-finding key or None.
    """
    pid = spec.PROPERTY_ID
    t_start = time.time()
    seed = int(os.environ.get("VERIF_SEED", "0") or 0)
    obs = list(spec.obligations(tier))
    if only:
        obs = [o for o in obs if only in o.name]
    known, fixed = load_known(pid)
    names = [o.name for o in obs]
    assert len(set(names)) == len(names), "duplicate obligation names"

    harness_errors = []
    # translator / oracle validation (non-deciding)
    validation = None
    if hasattr(spec, "validate") and not only:
        try:
            ok, detail = spec.validate(tier)
        except Exception as e:  # noqa
            ok, detail = False, f"validate() raised {type(e).__name__}: {e}"
        validation = {"ok": ok, "detail": detail}
        if not ok:
            harness_errors.append(f"validation failed: {detail}")

    tasks = []
    for o in obs:
        tasks.append((o, None))
        for tw in o.twins:
            tasks.append((o, tw))
    results = {}

    # longest first; batches share (module, kind) so one process amortises the import cost
    tasks.sort(key=lambda t: -(t[0].timeout if t[1] is None else 1))
    bsize = max(1, min(6, len(tasks) // (jobs * 2)))
    groups = {}
    for t in tasks:
        groups.setdefault((t[0].module, t[0].kind), []).append(t)
    batches = []
    for g in groups.values():
        # deal round-robin so long obligations spread over batches
        nb = max(1, (len(g) + bsize - 1) // bsize)
        parts = [[] for _ in range(nb)]
        for i, t in enumerate(g):
            parts[i % nb].append(t)
        batches.extend(parts)

    def go(batch):
        return batch, _run_batch(batch)

    with ThreadPoolExecutor(max_workers=jobs) as ex:
        for batch, outs in ex.map(go, batches):
            for (o, tw), r in zip(batch, outs):
                results[(o.name, tw)] = r

    violations, known_hits, report = [], [], []
    n_discharged = n_required = n_incon = 0
    solver_s = 0.0
    paths = 0
    for o in obs:
        r = results[(o.name, None)]
        solver_s += r.get("solver_s", 0.0)
        paths += r.get("paths", 0)
        entry = {
            "obligation": o.name,
            "group": o.group,
            "grade": o.grade,
            "args": o.args,
            "optional": o.optional,
            "status": r["status"],
            "detail": (r.get("detail") or "")[:600],
            "paths": r.get("paths"),
            "queries": r.get("queries"),
            "solver_s": r.get("solver_s"),
            "wall_s": r.get("wall_s"),
        }
        # vacuity twins
        twin_ok = True
        twin_info = {}
        for tw in o.twins:
            rt = results[(o.name, tw)]
            solver_s += rt.get("solver_s", 0.0)
            twin_info[tw] = rt["status"]
            if rt["status"] != "cex":
                twin_ok = False
                twin_info[tw] += ": " + (rt.get("detail") or "")[:120]
        entry["twins"] = twin_info
        if not o.optional:
            n_required += 1
        if r["status"] == "holds":
            if twin_ok:
                entry["verdict"] = "discharged"
                if not o.optional:
                    n_discharged += 1
                else:
                    entry["verdict"] = "discharged(optional)"
            else:
                entry["verdict"] = "inconclusive(vacuity twin not reachable)"
                if not o.optional:
                    n_incon += 1
                    harness_errors.append(f"{o.name}: vacuity twin failed {twin_info}")
        elif r["status"] == "cex":
            cex = r.get("cex")
            rep = _run_worker(o, None, plain_cex=cex, wall=300)
            entry["cex"] = cex
            entry["replay"] = {k: rep.get(k) for k in ("status", "detail")}
            if rep.get("status") == "reproduced":
                key = None
                try:
                    key = spec.classify(o.name, o.args, cex, rep) if hasattr(spec, "classify") else None
                except Exception as e:  # noqa
                    key = None
                rp = write_replay(pid, o, cex, rep)
                entry["replay_file"] = str(rp)
                if key is not None and key in known:
                    entry["verdict"] = f"known-finding:{key}"
                    known_hits.append((key, known[key], o.name))
                    if not o.optional:
                        n_discharged += 0
                else:
                    entry["verdict"] = "VIOLATION"
                    entry["finding_key"] = key
                    violations.append((o, cex, rp, key))
            else:
                entry["verdict"] = "inconclusive(counterexample did not reproduce on the real API)"
                if not o.optional:
                    n_incon += 1
                    harness_errors.append(f"{o.name}: cex {cex} did not reproduce: {rep.get('detail')}")
        else:
            entry["verdict"] = "inconclusive"
            if not o.optional:
                n_incon += 1
                harness_errors.append(f"{o.name}: inconclusive: {(r.get('detail') or '')[:300]}")
        report.append(entry)

    # expected-known strict obligations whose finding did not show up are fine (defect may be fixed).
    wall = time.time() - t_start
    enc_files = sorted({f for f, _ in spec.ENCODED})
    samples = []
    for e in report:
        if e["verdict"].startswith("discharged") and len(samples) < 3:
            samples.append({k: e[k] for k in ("obligation", "args", "paths", "queries", "solver_s", "verdict") if k in e})
    for e in report:
        if "cex" in e and len(samples) < 6:
            samples.append({k: e[k] for k in ("obligation", "args", "cex", "verdict") if k in e})
    if not samples and report:
        samples.append({k: report[0][k] for k in ("obligation", "args", "verdict")})
    n_known_obs = sum(1 for e in report if e["verdict"].startswith("known-finding") and not e["optional"])
    ev = {
        "property_id": pid,
        "tier": tier,
        "seed": seed,
        "level": "other",
        "coverage": {
            "explanation": ("ALL obligations of this property are of the realised-input grade (see 'grades'): solver-driven bounded-exhaustive runs, not a symbolic for-all. " if all(o.grade == "realised-input" for o in obs) else "")
            + "bounded symbolic verification (SMT): each obligation is the real cogent3 code executed on solver "
            "variables; 'discharged' = solver exhausted all paths / unsat inside the listed bounds AND its vacuity twin was "
            "refuted; counterexamples are replayed on the unpatched public API before being reported. "
            + getattr(spec, "CLAIM", ""),
            "obligations": n_required,
            "obligations_by_grade": {g: sum(1 for o in obs if o.grade == g and not o.optional) for g in sorted({o.grade for o in obs})},
            "grades": "symbolic = inputs stay symbolic along every explored path (solver for-all within the bounds); realised-input = the code "
            "hands its input to C level at once, so the solver only enumerates a bounded input domain (one mixed-radix integer, every value "
            "reached by forking) and each run is concrete: bounded-exhaustive checking, listed separately because it is weaker",
            "discharged": n_discharged,
            "known_finding_obligations": n_known_obs,
            "inconclusive": n_incon,
            "optional_attempted": sum(1 for o in obs if o.optional),
            "optional_discharged": sum(1 for e in report if e["verdict"] == "discharged(optional)"),
            "checker_cmd": f"./check {pid} --tier {tier}",
            "trusted_base": list(getattr(spec, "TRUSTED", []))
            + ["CrossHair 0.0.110 symbolic semantics of CPython/numpy-object arrays", "z3 4.x/5.x", "the reference models in props/*.py"],
            "functions_encoded": [{"file": f, "functions": fs} for f, fs in spec.ENCODED],
            "source_hashes": source_hashes(enc_files),
            "bounds": spec.BOUNDS.get(tier, spec.BOUNDS.get("quick")),
            "outside_claim": getattr(spec, "OUTSIDE", []),
            "paths_explored": paths,
            "solver_cpu_s": round(solver_s, 1),
            "validation": validation,
            "samples": samples,
            "per_obligation": report,
            "exhaustive": False,
        },
        "assumptions": list(getattr(spec, "ASSUMPTIONS", [])),
        "wall_s": round(wall, 1),
        "violations": len(violations),
    }
    evdir = Path(os.environ.get("VERIF_EVIDENCE_DIR", str(VERIF / "evidence")))  # redirected when trying seeded changes
    evdir.mkdir(parents=True, exist_ok=True)
    if not only:
        (evdir / f"{pid}.json").write_text(json.dumps(ev, indent=1, default=str))

    # ---- console report
    for e in report:
        print(f"[{pid}] {e['obligation']:<44} {e['verdict']:<28} paths={e.get('paths')} t={e.get('wall_s')}s twins={e['twins']}")
        if e["verdict"].startswith("inconclusive") or e["verdict"] == "VIOLATION":
            print("      ", (e.get("detail") or "")[:300], e.get("cex", ""), e.get("replay", ""))
    seen = set()
    for key, desc, obname in known_hits:
        if key in seen:
            continue
        seen.add(key)
        print(f"KNOWN-FINDING: property={pid} key={key} {desc} (hit by {obname})")
    for o, cex, rp, key in violations:
        print(f"VIOLATION property={pid} replay={rp}")
        print(f"   obligation={o.name} finding_key={key} counterexample={json.dumps(cex, default=str)[:400]}")
    print(
        f"[{pid}] tier={tier} obligations={n_required} discharged={n_discharged} known={n_known_obs} "
        f"inconclusive={n_incon} violations={len(violations)} wall={wall:.0f}s"
    )
    if violations:
        return EXIT_VIOLATION
    if harness_errors:
        for h in harness_errors:
            print("HARNESS-ERROR:", h[:300], file=sys.stderr)
        return EXIT_HARNESS
    return EXIT_OK


def write_replay(pid, ob: Ob, cex, rep):
    d = VERIF / "replays" / pid
    d.mkdir(parents=True, exist_ok=True)
    h = hashlib.sha1(json.dumps([ob.name, cex], sort_keys=True, default=str).encode()).hexdigest()[:10]
    p = d / f"{ob.name.replace('/', '_')}-{h}.json"
    p.write_text(
        json.dumps(
            {
                "property": pid,
                "obligation": dataclasses.asdict(ob),
                "counterexample": cex,
                "replay_detail": rep.get("detail"),
                "how": f"./check {pid} --replay {p}",
            },
            indent=1,
            default=str,
        )
    )
    return p


def replay_file(path):
    d = json.loads(Path(path).read_text())
    o = d["obligation"]
    o["twins"] = tuple(o.get("twins", ()))
    ob = Ob(**o)
    rep = _run_worker(ob, None, plain_cex=d["counterexample"], wall=300)
    print(json.dumps(rep, indent=1, default=str))
    return 1 if rep.get("status") == "reproduced" else 0
