import argparse
import importlib
import os
import sys

from vlib import core


def main():
    ap = argparse.ArgumentParser()
    ap.add_argument("prop")
    ap.add_argument("--tier", default=os.environ.get("VERIF_TIER", "quick"))
    ap.add_argument("--only", default=None)
    ap.add_argument("--replay", default=None)
    ap.add_argument("--jobs", type=int, default=int(os.environ.get("VERIF_JOBS", "16")))
    a = ap.parse_args()
    if a.replay:
        sys.exit(core.replay_file(a.replay))
    spec = importlib.import_module("props." + a.prop.lower())
    sys.exit(core.run_property(spec, a.tier, a.only, a.jobs))


if __name__ == "__main__":
    main()
