"""Helpers used inside harness functions."""
import os

TWIN = os.environ.get("VTWIN")  # tag of the reachability twin being run, or None
PLAIN = os.environ.get("VPLAIN") == "1"  # concrete replay on unpatched code


def reach(tag="end"):
    """Marks an interior point. Normal run: True. Twin run for `tag`: False, so that the
    harness' `if not reach(tag): return False` makes the postcondition fail exactly when the
    point is reachable under the preconditions."""
    return TWIN != tag  # TWIN is (re)set by the worker for every request


def arr(values, plain_dtype=None):
    """numpy array holding (possibly symbolic) ints: object dtype under the solver, the code's
    own machine dtype in plain replay."""
    import numpy

    if PLAIN:
        return numpy.array(values, dtype=plain_dtype if plain_dtype is not None else int)
    a = numpy.empty(len(values), dtype=object)
    for i, v in enumerate(values):
        a[i] = v
    return a


def concrete(value):
    """Realise `value` (CrossHair forks on the realised value, so a bounded domain is still exhausted path by path) and return
    (value, context manager): inside the context the rest of the harness runs WITHOUT tracing. For harnesses whose inputs go
    straight into C-level code (numpy typed arrays, SQLite, JSON): after the realisation nothing symbolic is left, and tracing
    the remaining concrete run only costs time and trips CrossHair's proxies (isinstance on Protocols, memo dicts, dict())."""
    import contextlib

    if PLAIN:
        return value, contextlib.nullcontext()
    from crosshair import deep_realize
    from crosshair.tracers import NoTracing

    return deep_realize(value), NoTracing()


BLOCK = 16


def nblocks(total, k=BLOCK):
    """realised-input harnesses: the solver enumerates BLOCKS of k consecutive input codes (CrossHair costs ~0.2 s per path whatever
    the body does); the body is run concretely for every code of the block, so the whole domain 0..total-1 is still covered"""
    return (total + k - 1) // k


def run_block(block, total, body, k=BLOCK):
    for code in range(block * k, min(total, (block + 1) * k)):
        if not body(code):
            return False
    return True
