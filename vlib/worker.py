"""Runs ONE obligation (or its vacuity twin, or the plain replay of a counterexample) in this process.

stdin: JSON request; last stdout line: '@@RESULT {json}'.
"""
from __future__ import annotations

import ast
import collections
import importlib
import json
import os
import sys
import time
import traceback


def emit(d):
    sys.stdout.write("\n@@RESULT " + json.dumps(d, default=str) + "\n")
    sys.stdout.flush()


def parse_call(msg: str, fname: str):
    """Extract kwargs of 'when calling f(a=1, b=None)' from a CrossHair message."""
    marker = "when calling "
    i = msg.find(marker)
    if i < 0:
        return None
    s = msg[i + len(marker):]
    # balanced parens
    depth = 0
    end = None
    in_str = None
    j = 0
    while j < len(s):
        c = s[j]
        if in_str:
            if c == "\\":
                j += 2
                continue
            if c == in_str:
                in_str = None
        elif c in "'\"":
            in_str = c
        elif c == "(":
            depth += 1
        elif c == ")":
            depth -= 1
            if depth == 0:
                end = j + 1
                break
        j += 1
    if end is None:
        return None
    expr = s[:end]
    try:
        node = ast.parse(expr, mode="eval").body
    except SyntaxError:
        return None
    if not isinstance(node, ast.Call):
        return None
    pos = []
    kw = {}
    try:
        for a in node.args:
            pos.append(ast.literal_eval(a))
        for k in node.keywords:
            kw[k.arg] = ast.literal_eval(k.value)
    except Exception:
        return None
    return pos, kw


def run_crosshair(fn, timeout, per_path_timeout):
    from crosshair.core_and_libs import analyze_function, run_checkables
    from crosshair.options import AnalysisKind, AnalysisOptionSet
    from crosshair.statespace import MessageType

    stats = collections.Counter()
    opts = AnalysisOptionSet(
        per_condition_timeout=float(timeout),
        per_path_timeout=float(per_path_timeout or max(10.0, timeout / 4)),
        report_all=True,
        analysis_kind=[AnalysisKind.PEP316],
        stats=stats,
    )
    t0 = time.process_time()
    checkables = analyze_function(fn, opts)
    msgs = list(run_checkables(checkables))
    cpu = time.process_time() - t0
    res = {"paths": stats.get("num_paths", 0), "solver_s": round(cpu, 2)}
    if not msgs:
        res.update(status="inconclusive", detail="no conditions analysed (no messages)")
        return res
    states = [m.state for m in msgs]
    detail = " | ".join(f"{m.state.name}: {m.message[:400]}" for m in msgs)
    res["detail"] = detail
    bad = [m for m in msgs if m.state in (MessageType.POST_FAIL, MessageType.POST_ERR, MessageType.EXEC_ERR)]
    if bad:
        m = bad[0]
        import inspect

        params = list(inspect.signature(fn).parameters)
        parsed = parse_call(m.message, fn.__name__)
        if parsed is None:
            res.update(status="inconclusive", detail="unparseable counterexample: " + detail)
            return res
        pos, kw = parsed
        cex = dict(zip(params, pos))
        cex.update(kw)
        res.update(status="cex", cex=cex, cex_kind=m.state.name)
        return res
    if all(s == MessageType.CONFIRMED for s in states):
        res["status"] = "holds"
        return res
    res["status"] = "inconclusive"
    return res


def handle(req, state):
    from vlib import w as W

    W.TWIN = req.get("twin")
    try:
        mod = importlib.import_module(req["module"])
        factory = getattr(mod, req["factory"])
        plain = req.get("replay") is not None
        if req["kind"] == "crosshair":
            if plain:
                fn = factory(**req["args"])
                cex = req["replay"]
                try:
                    out = fn(**cex)
                    if not out:  # the postcondition is the truth value of the result (numpy.False_ included)
                        return {"status": "reproduced", "detail": f"harness assertion {out!r} on the unpatched code with concrete inputs"}
                    return {"status": "not_reproduced", "detail": f"returned {out!r}"}
                except Exception as e:  # noqa
                    tb = traceback.format_exc()[-800:]
                    return {"status": "reproduced", "detail": f"raised {type(e).__name__}: {e}", "traceback": tb}
            if hasattr(mod, "setup_symbolic") and not state.get("setup_done"):
                mod.setup_symbolic()
                state["setup_done"] = True
            fn = factory(**req["args"])
            return run_crosshair(fn, req["timeout"], req.get("per_path_timeout"))
        # direct: the factory itself talks to the solver
        if plain:
            return factory(**req["args"], _replay=req["replay"])
        t0 = time.process_time()
        out = factory(**req["args"])
        out.setdefault("solver_s", round(time.process_time() - t0, 2))
        return out
    except BaseException as e:  # noqa
        return {"status": "inconclusive", "detail": f"worker exception {type(e).__name__}: {e}\n" + traceback.format_exc()[-1500:]}


def main():
    req = json.loads(sys.stdin.read())
    sys.setrecursionlimit(10000)
    state = {}
    if "batch" in req:
        for i, r in enumerate(req["batch"]):
            t0 = time.time()
            out = handle(r, state)
            out["wall_s"] = round(time.time() - t0, 2)
            sys.stdout.write("\n@@RESULT " + json.dumps({"i": i, "out": out}, default=str) + "\n")
            sys.stdout.flush()
    else:
        emit(handle(req, state))


if __name__ == "__main__":
    main()
