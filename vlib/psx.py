"""E2 "psx" — a small proxy symbolic executor.

SReal / SBool wrap z3 terms and overload Python arithmetic, comparisons and the numpy
object-array protocol, so the *real* cogent3 numeric code runs on them unchanged. Whenever Python
needs a concrete truth value (`if x > y`, `max`, `abs`, `while`), SBool.__bool__ asks z3 which
outcomes are feasible under the path condition and the executor forks by deterministic
re-execution with a decision prefix (DFS). Every feasible branch is visited; straight-line
numeric code needs no fork at all.

Transcendental functions are uninterpreted (LOG, EXP, SQRT): an identity is only provable when it
follows from equal arguments / coefficients (plus any axioms the harness adds explicitly).
"""
from __future__ import annotations

import time
from fractions import Fraction

import numpy
import z3

LOG = z3.Function("LOG", z3.RealSort(), z3.RealSort())
EXP = z3.Function("EXP", z3.RealSort(), z3.RealSort())
SQRT = z3.Function("SQRT", z3.RealSort(), z3.RealSort())


class PathLimit(Exception):
    pass


class Ctx:
    cur = None

    def __init__(self, assumptions, prefix, timeout_ms):
        self.solver = z3.Solver()
        self.solver.set("timeout", timeout_ms)
        self.solver.add(*assumptions)
        self.prefix = list(prefix)
        self.pos = 0
        self.pending = []
        self.decisions = []
        self.queries = 0
        self.unknowns = 0


def lift(x):
    """python / numpy number or proxy -> z3 arithmetic term"""
    if isinstance(x, SReal):
        return x.t
    if isinstance(x, (bool, numpy.bool_)):
        return z3.RealVal(int(x))
    if isinstance(x, (int, numpy.integer)):
        return z3.RealVal(int(x))
    if isinstance(x, Fraction):
        return z3.RealVal(f"{x.numerator}/{x.denominator}")
    if isinstance(x, (float, numpy.floating)):
        f = Fraction(float(x)).limit_denominator(10**6)
        if abs(float(f) - float(x)) > 1e-12 * max(1.0, abs(float(x))):
            raise ValueError(f"float literal {x!r} is not (close to) a small rational; refusing to lift")
        return z3.RealVal(f"{f.numerator}/{f.denominator}")
    if z3.is_expr(x):
        return x
    raise TypeError(type(x))


class SBool:
    __slots__ = ("t",)

    def __init__(self, t):
        self.t = t

    def __bool__(self):
        c = Ctx.cur
        if c is None:
            raise RuntimeError("SBool used outside psx.explore")
        t = z3.simplify(self.t)
        if z3.is_true(t):
            return True
        if z3.is_false(t):
            return False
        if c.pos < len(c.prefix):
            v = c.prefix[c.pos]
        else:
            s = c.solver
            s.push()
            s.add(t)
            r1 = str(s.check())
            s.pop()
            s.push()
            s.add(z3.Not(t))
            r2 = str(s.check())
            s.pop()
            c.queries += 2
            can_t = r1 != "unsat"
            can_f = r2 != "unsat"
            if r1 == "unknown" or r2 == "unknown":
                c.unknowns += 1
            if not (can_t or can_f):
                raise RuntimeError("path condition became unsatisfiable")
            v = can_t
            if can_t and can_f:
                c.pending.append(c.prefix[: c.pos] + [False])
            c.prefix.append(v)
        c.pos += 1
        c.decisions.append((self.t, v))
        c.solver.add(t if v else z3.Not(t))
        return v

    def __and__(self, o):
        return SBool(z3.And(self.t, _bt(o)))

    __rand__ = __and__

    def __or__(self, o):
        return SBool(z3.Or(self.t, _bt(o)))

    __ror__ = __or__

    def __invert__(self):
        return SBool(z3.Not(self.t))

    def any(self):
        return self

    def all(self):
        return self


def _bt(o):
    if isinstance(o, SBool):
        return o.t
    return z3.BoolVal(bool(o))


class SReal:
    """a real- (or int-) valued symbolic number"""

    __slots__ = ("t",)

    def __init__(self, t):
        self.t = t

    def _b(self, o, f):
        try:
            return SReal(f(self.t, lift(o)))
        except TypeError:
            return NotImplemented

    def __add__(s, o):
        return s._b(o, lambda a, b: a + b)

    __radd__ = __add__

    def __sub__(s, o):
        return s._b(o, lambda a, b: a - b)

    def __rsub__(s, o):
        return s._b(o, lambda a, b: b - a)

    def __mul__(s, o):
        return s._b(o, lambda a, b: a * b)

    __rmul__ = __mul__

    def __truediv__(s, o):
        return s._b(o, lambda a, b: a / b)

    def __rtruediv__(s, o):
        return s._b(o, lambda a, b: b / a)

    def __pow__(s, o):
        if isinstance(o, (int, numpy.integer)) and 0 <= int(o) <= 4:
            r = z3.RealVal(1)
            for _ in range(int(o)):
                r = r * s.t
            return SReal(r)
        return NotImplemented

    def __neg__(s):
        return SReal(-s.t)

    def __pos__(s):
        return s

    def __abs__(s):
        return SReal(z3.If(s.t >= 0, s.t, -s.t))

    @staticmethod
    def _inf(o):
        """+1 / -1 when o is +-infinity (every real compares strictly inside), else 0"""
        if isinstance(o, (float, numpy.floating)) and numpy.isinf(o):
            return 1 if o > 0 else -1
        return 0

    def __lt__(s, o):
        i = SReal._inf(o)
        return SBool(z3.BoolVal(i > 0)) if i else SBool(s.t < lift(o))

    def __le__(s, o):
        i = SReal._inf(o)
        return SBool(z3.BoolVal(i > 0)) if i else SBool(s.t <= lift(o))

    def __gt__(s, o):
        i = SReal._inf(o)
        return SBool(z3.BoolVal(i < 0)) if i else SBool(s.t > lift(o))

    def __ge__(s, o):
        i = SReal._inf(o)
        return SBool(z3.BoolVal(i < 0)) if i else SBool(s.t >= lift(o))

    def __eq__(s, o):
        try:
            return SBool(s.t == lift(o))
        except TypeError:
            return False

    def __ne__(s, o):
        try:
            return SBool(s.t != lift(o))
        except TypeError:
            return True

    def __hash__(s):
        return id(s)

    def __bool__(s):
        return bool(SBool(s.t != 0))

    # numpy object-array ufunc protocol
    def log(s):
        return SReal(LOG(s.t))

    def exp(s):
        return SReal(EXP(s.t))

    def sqrt(s):
        return SReal(SQRT(s.t))

    def conjugate(s):
        return s

    def __repr__(s):
        return f"SReal({s.t})"


class SRealU(SReal):
    """SReal that also answers numpy's finiteness ufuncs when passed directly (not inside an array): a real number is finite.
    Only used where the code under test calls numpy.isfinite / numpy.isneginf on a scalar result."""

    __slots__ = ()

    def __array_ufunc__(self, ufunc, method, *inputs, **kw):
        if method == "__call__" and len(inputs) == 1 and inputs[0] is self:
            if ufunc is numpy.isfinite:
                return True
            if ufunc in (numpy.isneginf, numpy.isposinf, numpy.isinf, numpy.isnan):
                return False
        return NotImplemented


def real(name):
    return SReal(z3.Real(name))


def const(v):
    return SReal(lift(v))


def term(x):
    return lift(x)


def obj_array(shape, fn):
    a = numpy.empty(shape, dtype=object)
    for idx in numpy.ndindex(*((shape,) if isinstance(shape, int) else shape)):
        a[idx] = fn(*idx)
    return a


class Path:
    def __init__(self, assertions, decisions, result, exc):
        self.assertions = assertions
        self.decisions = decisions
        self.result = result
        self.exc = exc


def explore(fn, assumptions=(), max_paths=2000, timeout_ms=20000):
    """run fn() on every feasible decision sequence; returns (paths, stats)"""
    todo = [[]]
    paths = []
    stats = {"paths": 0, "queries": 0, "unknown_branch_checks": 0}
    t0 = time.time()
    while todo:
        pre = todo.pop()
        c = Ctx(assumptions, pre, timeout_ms)
        Ctx.cur = c
        exc = None
        res = None
        try:
            res = fn()
        except (AssertionError, ArithmeticError, ValueError, IndexError, KeyError, TypeError, RuntimeError) as e:  # the code under test raised
            exc = e
        finally:
            Ctx.cur = None
        paths.append(Path(list(c.solver.assertions()), c.decisions, res, exc))
        todo.extend(c.pending)
        stats["paths"] += 1
        stats["queries"] += c.queries
        stats["unknown_branch_checks"] += c.unknowns
        if stats["paths"] > max_paths:
            raise PathLimit(f"more than {max_paths} paths")
    stats["explore_s"] = round(time.time() - t0, 2)
    return paths, stats


def check_valid(assertions, claim, timeout_ms=60000, tactic=None):
    """is `claim` implied by `assertions`?  -> ('unsat'|'sat'|'unknown', model or None, seconds)"""
    s = z3.Solver() if tactic is None else z3.Tactic(tactic).solver()
    s.set("timeout", timeout_ms)
    s.add(*assertions)
    s.add(z3.Not(claim))
    t0 = time.time()
    r = str(s.check())
    dt = time.time() - t0
    return r, (s.model() if r == "sat" else None), dt


def model_float(m, t):
    v = m.eval(t, model_completion=True)
    if z3.is_rational_value(v):
        return float(Fraction(v.numerator_as_long(), v.denominator_as_long()))
    if z3.is_int_value(v):
        return float(v.as_long())
    if z3.is_algebraic_value(v):
        return float(v.approx(20).as_fraction())
    return float(str(v))


# ---------------------------------------------------------------- equality modulo uninterpreted functions
def _collect_apps(t, decls, acc):
    if z3.is_app(t):
        if t.decl().kind() == z3.Z3_OP_UNINTERPRETED and t.num_args() == 1 and any(t.decl().eq(d) for d in decls):
            if not any(t.eq(x) for x in acc):
                acc.append(t)
        for c in t.children():
            _collect_apps(c, decls, acc)


def prove_equal_modulo_uf(assertions, a, b, decls=(LOG, EXP, SQRT), timeout_ms=120000):
    """Decide `assertions |= a == b` where a, b contain unary uninterpreted functions.

    Sound decomposition: every application f(x) in `a` is matched with an application f(y) in `b` whose argument is
    PROVABLY equal (pure real arithmetic query); matched applications are replaced by one fresh variable on both sides and
    the remaining polynomial/rational identity is decided by z3.  Returns (verdict, info) with verdict in
    'unsat' (proved) | 'sat' (refuted; info = model) | 'unknown'.
    """
    apps_a, apps_b = [], []
    _collect_apps(a, decls, apps_a)
    _collect_apps(b, decls, apps_b)
    # innermost first so nested applications are abstracted bottom-up
    apps_a.sort(key=lambda t: len(t.sexpr()))
    apps_b.sort(key=lambda t: len(t.sexpr()))
    subs_a, subs_b = [], []
    used = set()
    queries = 0
    for i, fa in enumerate(apps_a):
        arg_a = z3.substitute(fa.arg(0), *subs_a) if subs_a else fa.arg(0)
        match = None
        for j, fb in enumerate(apps_b):
            if j in used or not fa.decl().eq(fb.decl()):
                continue
            arg_b = z3.substitute(fb.arg(0), *subs_b) if subs_b else fb.arg(0)
            r, m, dt = check_valid(assertions, arg_a == arg_b, timeout_ms=timeout_ms)
            queries += 1
            if r == "unsat":
                match = j
                break
        v = z3.Real(f"uf!{fa.decl().name()}!{i}")
        subs_a.append((fa, v))
        if match is not None:
            used.add(match)
            subs_b.append((apps_b[match], v))
    for j, fb in enumerate(apps_b):
        if j not in used:
            subs_b.append((fb, z3.Real(f"uf!{fb.decl().name()}!b{j}")))
    a2 = z3.substitute(a, *subs_a) if subs_a else a
    b2 = z3.substitute(b, *subs_b) if subs_b else b
    r, m, dt = check_valid(assertions, a2 == b2, timeout_ms=timeout_ms)
    queries += 1
    if r == "sat":
        # the functions are uninterpreted, so a model may sit where the REAL function happens to coincide (e.g. LOG(1) = 0 kills a
        # wrong coefficient). Prefer a generic witness: every abstracted argument strictly inside (0, 1), so it replays on floats.
        generic = []
        for fa, v in subs_a:
            arg = fa.arg(0)
            generic += [arg > 0, arg < 1, v != 0]
        r2, m2, dt2 = check_valid(list(assertions) + generic, a2 == b2, timeout_ms=timeout_ms)
        queries += 1
        if r2 == "sat":
            m = m2
    return r, {"model": m, "queries": queries, "matched": len(used), "apps": (len(apps_a), len(apps_b))}


def common_denominator_form(terms):
    """If every term is syntactically `num_i / den` with ONE shared denominator, return ([num_i], den); else None.
    Lets a harness turn `sum_i num_i/den == 1` into the polynomial identity `sum_i num_i == den` plus `den != 0`
    (sound: it is an equivalent statement of the same claim, only easier for nlsat)."""
    nums, den = [], None
    for t in terms:
        n = d = None
        if z3.is_app(t) and t.decl().kind() == z3.Z3_OP_DIV and t.num_args() == 2:
            n, d = t.arg(0), t.arg(1)
        elif z3.is_app(t) and t.decl().kind() == z3.Z3_OP_MUL:
            # x * (1 / den)  (how `Q *= 1.0 / total` shows up)
            args = list(t.children())
            recips = [a for a in args if z3.is_app(a) and a.decl().kind() == z3.Z3_OP_DIV and z3.is_rational_value(a.arg(0)) and a.arg(0).as_fraction() == 1]
            if len(recips) == 1:
                d = recips[0].arg(1)
                rest = [a for a in args if not a.eq(recips[0])]
                n = rest[0] if len(rest) == 1 else z3.Product(rest)
        elif z3.is_rational_value(t) and t.as_fraction() == 0:
            n, d = t, den  # a literal zero fits any denominator
        if n is None:
            return None
        if d is not None:
            if den is None:
                den = d
            elif not den.eq(d):
                return None
        nums.append(n)
    if den is None:
        return None
    return nums, den
