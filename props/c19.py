"""C19 — file writes are all-or-nothing.

Engine E2 (psx): the real atomic_write and its call sites run against an in-memory file system whose operations are
numbered; the crash point (a symbolic number kappa) and the position of a formatting failure are solver variables,
every feasible value is reached by forking on `operation_index == kappa`.
"""
from __future__ import annotations

import pathlib
import time
import types

import z3

from vlib import psx
from vlib import w as W
from vlib.core import Ob

PROPERTY_ID = "C19"
ENGINE = "E2 psx (symbolic crash / failure point over an in-memory file-system model)"
TECHNIQUE = "real atomic_write and writer call sites executed against an operation-numbered in-memory file system; the kill point and the failure point are symbolic integers, every feasible value explored by solver-guided forking; the destination's content after the event is compared with {old, new}"
CLAIM = (
    "for every crash point (process killed before any single file-system operation, no cleanup runs) the destination holds its previous content (or is absent if it was) or exactly the new content; "
    "when formatting fails the destination is untouched and no temporary file or directory remains; on success exactly the new content is there and nothing temporary remains."
)


class Kill(BaseException):
    """the process dies: nothing after this point has any effect"""


class FS:
    def __init__(self, kappa, fault=None):
        self.files = {}
        self.dirs = {"/d"}
        self.n = 0
        self.kappa = kappa
        self.fault = fault
        self.faulted = None
        self.dead = False
        self.log = []

    def op(self, name):
        if self.dead:
            raise Kill()
        i = self.n
        self.n += 1
        self.log.append(name)
        if self.kappa is not None and bool(self.kappa == i):
            self.dead = True
            raise Kill()
        if self.fault is not None and self.faulted is None and bool(self.fault == i):
            self.faulted = name
            raise OSError(28, "No space left on device (injected)", name)


def make_env(fs):
    class FakePath(pathlib.PurePosixPath):
        def expanduser(self):
            return self

        def exists(self):
            fs.op(f"exists {self}")
            return str(self) in fs.files or str(self) in fs.dirs

        def unlink(self, missing_ok=False):
            fs.op(f"unlink {self}")
            if str(self) not in fs.files:
                if missing_ok:
                    return
                raise FileNotFoundError(str(self))
            del fs.files[str(self)]

        def rename(self, target):
            fs.op(f"rename {self} -> {target}")
            fs.files[str(target)] = fs.files.pop(str(self))  # POSIX rename: atomic, overwrites
            return FakePath(str(target))

        def replace(self, target):
            fs.op(f"replace {self} -> {target}")
            fs.files[str(target)] = fs.files.pop(str(self))
            return FakePath(str(target))

        def mkdir(self, *a, **k):
            fs.op(f"mkdir {self}")
            fs.dirs.add(str(self))

    class FakeFile:
        def __init__(self, path):
            self.path = str(path)
            fs.op(f"open {path}")
            fs.files[self.path] = []
            self.closed = False

        def write(self, text):
            # buffered, like Python's text / gzip layers: small outputs reach the file system at close()
            fs.op(f"write {self.path}")
            self.buf = getattr(self, "buf", []) + [text]

        def writelines(self, lines):
            for ln in [lines] if isinstance(lines, str) else lines:
                self.write(ln)

        def close(self):
            if not self.closed:
                self.closed = True  # a second close() is a no-op even if the first one failed, as for real file objects
                fs.op(f"close {self.path}")  # the flush: an injected fault here loses the buffered data
                fs.files[self.path] = fs.files[self.path] + getattr(self, "buf", [])

        def __enter__(self):
            return self

        def __exit__(self, *a):
            self.close()

    counter = [0]

    def mkdtemp(dir=None):
        fs.op(f"mkdtemp in {dir}")
        counter[0] += 1
        p = f"{dir}/tmp{counter[0]}"
        fs.dirs.add(p)
        return p

    def rmtree(path):
        fs.op(f"rmtree {path}")
        p = str(path)
        fs.dirs.discard(p)
        for k in [k for k in fs.files if k.startswith(p + "/")]:
            del fs.files[k]

    def unlink(path):
        fs.op(f"os.unlink {path}")
        if str(path) not in fs.files:
            raise FileNotFoundError(str(path))
        del fs.files[str(path)]

    def open_(filename, mode="rt", **kw):
        return FakeFile(filename)

    class FakeZip:
        """zipfile.ZipFile over the model: an archive is a list of ("member", arcname, data) entries. Adding a member overwrites the
        central directory in place, so from the first write until close() the archive is unreadable (("OPEN",) marker)."""

        def __init__(self, path, mode="r"):
            self.path, self.mode = str(path), mode
            fs.op(f"zip open({mode}) {path}")
            if mode == "w" or (mode == "a" and self.path not in fs.files):
                fs.files[self.path] = []

        def write(self, src, arcname=None):
            fs.op(f"zip add {arcname} to {self.path}")
            if str(src) not in fs.files:
                raise FileNotFoundError(str(src))
            data = tuple(fs.files[str(src)])
            cur = [e for e in fs.files[self.path] if e != ("OPEN",)]
            fs.files[self.path] = cur + [("member", str(arcname), data), ("OPEN",)]

        def close(self):
            fs.op(f"zip close {self.path}")
            fs.files[self.path] = [e for e in fs.files[self.path] if e != ("OPEN",)]

        def __enter__(self):
            return self

        def __exit__(self, *a):
            self.close()

    def builtin_open(filename, mode="r", **kw):
        return FakeFile(filename)

    return FakePath, mkdtemp, rmtree, unlink, open_, FakeZip, builtin_open


class _Patched:
    """rebinds the environment names inside cogent3.util.io (and format.alignment.os) for the duration of one run"""

    def __init__(self, fs, real_open=False):
        import cogent3.format.alignment as FA
        import cogent3.util.io as IO

        self.IO, self.FA = IO, FA
        self.saved = (IO.Path, IO.mkdtemp, IO.shutil, IO.open_, FA.os, IO.ZipFile)
        FakePath, mkdtemp, rmtree, unlink, open_, FakeZip, builtin_open = make_env(fs)
        IO.Path, IO.mkdtemp, IO.ZipFile = FakePath, mkdtemp, FakeZip
        if real_open:
            # zip destinations: the real open_ / open_zip / nested atomic_write run; only the builtin open they end in is the model
            IO.open = builtin_open
        else:
            IO.open_ = open_
        IO.shutil = types.SimpleNamespace(rmtree=rmtree)
        FA.os = types.SimpleNamespace(unlink=unlink)

    def __enter__(self):
        return self

    def __exit__(self, *a):
        IO, FA = self.IO, self.FA
        IO.Path, IO.mkdtemp, IO.shutil, IO.open_, FA.os, IO.ZipFile = self.saved
        if "open" in IO.__dict__:
            del IO.open


DEST = "/d/out.txt"
DESTZ = "/d/out.json.zip"
NEW = ["new1", "new2"]


def _dest(site):
    return DESTZ if site.startswith("zip") else DEST


def _old(site):
    return [("member", "out.json", ("old",))] if site.startswith("zip") else ["old"]


def _is_new(site, content):
    if site.startswith("zip"):
        # exactly one member holding the new text (the member is named after the staging file, as the real code does)
        return isinstance(content, list) and len(content) == 1 and content[0][0] == "member" and content[0][2] == tuple(NEW)
    return "".join(content or ["\0"]) == _expected(site)


def _writer(site, fail_at):
    """call site -> function(dest) performing the write of NEW (two chunks) and raising ValueError at chunk `fail_at` if not None"""
    import cogent3.util.io as IO

    def chunks():
        for i, c in enumerate(NEW):
            if fail_at is not None and i == fail_at:
                raise ValueError("formatting failed")
            yield c

    if site == "zip_block":  # a destination ending in .zip: staged as a whole temporary archive, moved over the destination in one step

        def run():
            with IO.atomic_write(DESTZ, mode="wt") as f:
                for c in chunks():
                    f.write(c)

    elif site == "with_block":  # the canonical use: tree.write / dict_array.write / table json

        def run():
            with IO.atomic_write(DEST, mode="wt") as f:
                for c in chunks():
                    f.write(c)

    elif site == "table_write":  # the real Table.write: atomic_write used as write() ... close(), formatter = `writer` callable

        def run():
            from cogent3.util.table import Table

            t = Table(header=["a"], data=[[1]])
            t.to_string = lambda **kw: "\n".join(chunks())  # the formatter (raises at the chosen chunk)
            t.write(DEST)

    elif site == "save_to_filename":

        def run():
            import cogent3.format.alignment as FA

            def formatter(aln, **kw):
                return "".join(chunks())

            saved = dict(FA.FORMATTERS)
            FA.FORMATTERS["fasta"] = formatter
            try:
                FA.save_to_filename(object(), DEST, "fasta")
            finally:
                FA.FORMATTERS.clear()
                FA.FORMATTERS.update(saved)

    elif site == "tree_write":

        def run():
            from cogent3 import make_tree

            t = make_tree(treestring="(a,b);")
            if fail_at is not None:
                t.get_newick = lambda **kw: (_ for _ in ()).throw(ValueError("formatting failed"))
            t.write(DEST)

    else:
        raise KeyError(site)
    return run


def _expected(site):
    if site == "tree_write":
        return "(a,b);"
    if site == "table_write":
        return "\n".join(NEW) + "\n"
    return "".join(NEW)


def _temp_left(fs):
    return [k for k in list(fs.files) + list(fs.dirs) if k not in (DEST, DESTZ, "/d")]


def mk_kill(site, preexists, _replay=None):
    """process killed before file-system operation number kappa"""
    t0 = time.time()
    kv = z3.Int("kappa")

    def run(kappa):
        fs = FS(kappa)
        if preexists:
            fs.files[_dest(site)] = _old(site)
        with _Patched(fs, real_open=site.startswith("zip")):
            try:
                _writer(site, None)()
                finished = True
            except Kill:
                finished = False
        return fs, finished

    if _replay is not None:
        k = int(_replay["kappa"])

        class K:
            def __eq__(self, i):
                return i == k

        fs, finished = run(K())
        content = fs.files.get(_dest(site))
        ok = content == (_old(site) if preexists else None) or _is_new(site, content)
        return {"status": "not_reproduced" if ok else "reproduced", "detail": f"killed before op {k} ({fs.log[-1] if fs.log else ''}): destination = {content!r}; ops = {fs.log}"}

    kap = psx.SReal(z3.ToReal(kv))
    paths, stats = psx.explore(lambda: run(kap), [kv >= 0, kv <= 40])
    if not W.reach("end"):
        return {"status": "cex" if any(not p.result[1] for p in paths if p.exc is None) else "inconclusive", "cex": {"twin": f"{len(paths)} crash points"}}
    nops = 0
    for p in paths:
        if p.exc is not None:
            return {"status": "cex", "cex": {"kappa": -1, "raised": repr(p.exc)}}
        fs, finished = p.result
        nops = max(nops, len(fs.log))
        content = fs.files.get(_dest(site))
        old = _old(site) if preexists else None
        if content != old and not _is_new(site, content):
            s = z3.Solver()
            s.add(*p.assertions)
            s.check()
            return {"status": "cex", "cex": {"kappa": s.model().eval(kv, model_completion=True).as_long(), "destination": repr(content), "ops": fs.log}}
        if finished and (not _is_new(site, content) or _temp_left(fs)):
            return {"status": "cex", "cex": {"kappa": 99, "destination": repr(content), "left": _temp_left(fs)}}
    return {"status": "holds", "paths": stats["paths"], "queries": stats["queries"], "detail": f"{stats['paths']} crash points over {nops} file-system operations", "solver_s": round(time.time() - t0, 2)}


def mk_fault(site, preexists, _replay=None):
    """one file-system operation (symbolic index) fails with OSError (disk full, I/O error): whatever the code then does,
    the destination holds its previous content (or is absent) or exactly the complete new content"""
    t0 = time.time()
    fv = z3.Int("phi")

    def run(phi):
        fs = FS(None, fault=phi)
        if preexists:
            fs.files[_dest(site)] = _old(site)
        err = None
        with _Patched(fs, real_open=site.startswith("zip")):
            try:
                _writer(site, None)()
            except OSError as e:
                err = e
        return fs, err

    def verdict(fs):
        content = fs.files.get(_dest(site))
        old = _old(site) if preexists else None
        return content == old or _is_new(site, content), content

    if _replay is not None:
        k = int(_replay["phi"])

        class K:
            def __eq__(self, i):
                return i == k

        fs, err = run(K())
        ok, content = verdict(fs)
        return {"status": "not_reproduced" if ok else "reproduced", "detail": f"OSError injected at op {k} ({fs.faulted}): destination = {content!r}; ops = {fs.log}"}

    phi = psx.SReal(z3.ToReal(fv))
    paths, stats = psx.explore(lambda: run(phi), [fv >= 0, fv <= 40])
    if not W.reach("end"):
        return {"status": "cex" if any(p.exc is None and p.result[0].faulted for p in paths) else "inconclusive", "cex": {"twin": f"{len(paths)} fault points"}}
    for p in paths:
        if p.exc is not None:
            return {"status": "cex", "cex": {"phi": -1, "raised": repr(p.exc)}}
        fs, err = p.result
        ok, content = verdict(fs)
        if not ok:
            s = z3.Solver()
            s.add(*p.assertions)
            s.check()
            return {"status": "cex", "cex": {"phi": s.model().eval(fv, model_completion=True).as_long(), "failed_op": fs.faulted, "destination": repr(content), "ops": fs.log}}
        if fs.faulted is None and (not _is_new(site, content) or _temp_left(fs)):
            return {"status": "cex", "cex": {"phi": 99, "destination": repr(content)}}
    return {"status": "holds", "paths": stats["paths"], "queries": stats["queries"], "detail": f"{stats['paths']} fault points", "solver_s": round(time.time() - t0, 2)}


def mk_format_failure(site, preexists, _replay=None):
    """formatting raises at a symbolic chunk index: destination untouched, nothing temporary left"""
    t0 = time.time()
    fv = z3.Int("fail_at")

    def run(fail_at):
        fs = FS(None)
        if preexists:
            fs.files[_dest(site)] = _old(site)
        raised = None
        with _Patched(fs, real_open=site.startswith("zip")):
            try:
                _writer(site, fail_at)()
            except Exception as e:  # noqa  (the formatter's ValueError, or whatever the cleanup path turns it into)
                raised = e
        return fs, raised

    def concrete(i):
        class F:
            def __eq__(self, j):
                return j == i

            def __ne__(self, j):
                return j != i

        return F()

    if _replay is not None:
        fs, raised = run(int(_replay["fail_at"]))
        content = fs.files.get(_dest(site))
        bad = []
        if content != (_old(site) if preexists else None):
            bad.append(f"destination is {content!r}")
        if _temp_left(fs):
            bad.append(f"left behind {_temp_left(fs)}")
        return {"status": "reproduced" if bad else "not_reproduced", "detail": "; ".join(bad) + f" ops={fs.log}"}

    class SymIdx:
        """fail_at as a symbolic int: `i == fail_at` forks"""

        def __init__(self, t):
            self.t = t

        def __eq__(self, i):
            return psx.SBool(self.t == i)

        def __req__(self, i):
            return psx.SBool(self.t == i)

        def __hash__(self):
            return id(self)

    sym = SymIdx(fv)

    def srun():
        # `i == fail_at` inside _writer: int.__eq__(SymIdx) -> NotImplemented -> SymIdx.__eq__
        return run(sym)

    paths, stats = psx.explore(srun, [fv >= 0, fv <= len(NEW) - 1] if site != "tree_write" else [fv == 0])
    if not W.reach("end"):
        return {"status": "cex" if any(p.exc is None and p.result[1] is not None for p in paths) else "inconclusive", "cex": {"twin": f"{len(paths)} failure points"}}
    for p in paths:
        if p.exc is not None:
            return {"status": "cex", "cex": {"fail_at": 0, "raised": repr(p.exc)}}
        fs, raised = p.result
        s = z3.Solver()
        s.add(*p.assertions)
        s.check()
        fa = s.model().eval(fv, model_completion=True).as_long()
        if raised is None:
            return {"status": "cex", "cex": {"fail_at": fa, "problem": "failure swallowed"}}
        content = fs.files.get(_dest(site))
        if content != (_old(site) if preexists else None):
            return {"status": "cex", "cex": {"fail_at": fa, "destination": repr(content), "ops": fs.log}}
        if _temp_left(fs):
            return {"status": "cex", "cex": {"fail_at": fa, "left_behind": _temp_left(fs), "ops": fs.log}}
    return {"status": "holds", "paths": stats["paths"], "queries": stats["queries"], "solver_s": round(time.time() - t0, 2)}


ENCODED = [
    ("src/cogent3/util/io.py", ["atomic_write.__init__", "atomic_write._make_tmppath", "atomic_write._get_fileobj", "atomic_write.__enter__", "atomic_write.write", "atomic_write.__exit__", "atomic_write.close", "atomic_write._close_rename_zip", "open_ / open_zip / _get_compression_open / _path_relative_to_zip_parent (zip destinations)", "atomic_write._close_rename_standard", "get_format_suffixes"]),
    ("src/cogent3/format/alignment.py", ["save_to_filename", "write_alignment_to_file"]),
    ("src/cogent3/core/tree.py", ["TreeNode.write (newick branch)"]),
    ("src/cogent3/util/table.py", ["Table.write (to_string branch)"]),
]
BOUNDS = {
    "quick": ["one write of two chunks to one destination; destination pre-exists or not; crash before ANY of the file-system operations the write performs (symbolic index, every feasible value forked); formatting failure at chunk 0 or 1",
              "call sites: `with atomic_write(...)` (tree / dict_array / table-json style), the real Table.write (write()+close() style, to_string formatter), save_to_filename, TreeNode.write",
              "`with atomic_write('out.json.zip')`: a destination ending in .zip, through the real open_ / open_zip and the nested member-writing atomic_write, over a ZipFile model"],
}
BOUNDS["thorough"] = BOUNDS["quick"]
ASSUMPTIONS = [
    "file system = in-memory model behind Path / mkdtemp / open_ / shutil.rmtree / os.unlink as used by cogent3.util.io; each operation is atomic; rename/replace atomically overwrite (POSIX)",
    "a kill stops the process before the chosen operation; no finally / __exit__ code has any effect afterwards",
    "formatting failure = the formatter raises ValueError while producing a chunk",
    "zip archive = list of (member name, data) entries behind a ZipFile model: adding a member rewrites the central directory in place, so the archive is unreadable from the first added member until close(); a valid new archive = exactly one member holding the new text (the real code names the member after its staging file)",
    "I/O fault = one operation raises OSError; file data is buffered and reaches the file system when close() succeeds (a failing close loses it); cleanup of temporary files after an I/O fault is NOT required (the unchanged code leaves the temp dir when close fails)",
]
OUTSIDE = ["real kernel / file-system semantics, power loss, fsync ordering", "gz / bz2 stream buffering; writes INTO an existing multi-member archive (in_zip=<path>)", "resume of an interrupted apply_to (data stores: C13 territory)"]
TRUSTED = ["the file-system model in props/c19.py", "vlib/psx.py"]


def obligations(tier):
    obs = []
    for site in ("with_block", "table_write", "save_to_filename", "tree_write", "zip_block"):
        for pre in (True, False):
            obs.append(Ob(f"kill/{site}/pre{int(pre)}", __name__, "mk_kill", {"site": site, "preexists": pre}, kind="direct", timeout=600, group="kill"))
            obs.append(Ob(f"format_failure/{site}/pre{int(pre)}", __name__, "mk_format_failure", {"site": site, "preexists": pre}, kind="direct", timeout=600, group="failure"))
            obs.append(Ob(f"io_fault/{site}/pre{int(pre)}", __name__, "mk_fault", {"site": site, "preexists": pre}, kind="direct", timeout=600, group="fault"))
    return obs


def classify(name, args, cex, rep):
    if name.startswith("format_failure/zip"):
        return "atomic_write:zip-destination-failure-before-first-write"
    if name.startswith("io_fault/"):
        return "atomic_write:partial-output-committed-after-io-fault"
    if name.startswith("kill/"):
        return "atomic_write:destination-absent-between-unlink-and-rename"
    if name.startswith("format_failure/save_to_filename"):
        return "save_to_filename:unlinks-destination-on-format-failure"
    if name.startswith("format_failure/table_write"):
        return "Table.write:leaves-temp-dir-on-format-failure"
    return None
