"""C04 (part 2) - a feature added to one sequence of an ALIGNMENT denotes the same residues through the alignment: its slice of
the alignment, its projection onto another sequence, and both again after slicing or reverse complementing the alignment.

Realised-input grade (the alignment classes push characters through numpy at once): the two gap patterns (5 columns, <= 2 gaps
per row, no all-gap column; 4 columns, at most one gap per row), the feature span and the alignment window are ONE mixed-radix symbolic integer, realised up front;
the body runs concretely on the real old-style Alignment. Oracle: the columns that hold the feature's residues, read off the
two gapped strings.
"""
from __future__ import annotations

import itertools

from vlib import w as W

NCOL = 4
LETTERS_A, LETTERS_B = "ACGT", "TGCA"
MASKS = [m for m in itertools.product((0, 1), repeat=NCOL) if sum(m) <= 1]  # 1 = gap
PAIRS = [(ma, mb) for ma in MASKS for mb in MASKS if not any(x and y for x, y in zip(ma, mb))]
SPANS = [(s, e) for s in range(0, NCOL - 1) for e in range(s + 1, NCOL + 1)]
WINDOWS = [(i, j) for i in range(0, NCOL) for j in range(i + 1, NCOL + 1)]
HISTORIES = ("none", "slice", "rc", "slice_rc")


def mk_alignment_feature(history, strand="+"):
    uses_window = history in ("slice", "slice_rc")
    TOTAL = len(PAIRS) * len(SPANS) * (len(WINDOWS) if uses_window else 1)
    comp = {"A": "T", "C": "G", "G": "C", "T": "A", "-": "-"}

    NBLOCKS = W.nblocks(TOTAL)

    def check(code: int) -> bool:
        """
        pre: 0 <= code < NBLOCKS
        post: _
        """
        _ = NBLOCKS
        code, untraced = W.concrete(code)  # `code` numbers a block of W.BLOCK consecutive inputs (see vlib.w.nblocks)
        with untraced:
            return W.run_block(code, TOTAL, body)

    def body(code):
        import cogent3

        ma, mb = PAIRS[code % len(PAIRS)]
        code //= len(PAIRS)
        s, e = SPANS[code % len(SPANS)]
        code //= len(SPANS)
        wi, wj = WINDOWS[code % len(WINDOWS)] if uses_window else (0, NCOL)
        ra = "".join("-" if g else LETTERS_A[k] for k, g in enumerate(ma))
        rb = "".join("-" if g else LETTERS_B[k] for k, g in enumerate(mb))
        na = NCOL - sum(ma)
        if e > na:
            return True  # the span must lie on sequence a
        aln = cogent3.make_aligned_seqs({"a": ra, "b": rb}, moltype="dna", array_align=False)
        aln.add_feature(seqid="a", biotype="gene", name="f", spans=[(s, e)], strand=strand, on_alignment=False)
        # the alignment columns holding residues s..e-1 of sequence a
        res_cols = [k for k in range(NCOL) if not ma[k]]
        cols = res_cols[s:e]
        view = aln
        if uses_window:
            if all(ma[c] for c in range(wi, wj)):
                return True  # the window leaves sequence a without residues: an empty view, where a window query degenerates to a point
                # query (non-empty views and windows are the documented domain, as in the sequence-level obligations and C17)
            view = view[wi:wj]
            cols = [c for c in cols if wi <= c < wj]
        if history in ("rc", "slice_rc"):
            view = view.rc()
        if not W.reach("end"):
            return False
        feats = list(view.get_features(seqid="a", allow_partial=True))
        if not cols:
            return len(feats) == 0
        if len(feats) != 1:
            return False
        f = feats[0]

        def on_strand(text):
            return "".join(comp[ch] for ch in reversed(text)) if strand == "-" else text

        want = {"a": on_strand("".join(ra[c] for c in cols)), "b": on_strand("".join(rb[c] for c in cols))}
        got = {n: str(v) for n, v in f.get_slice().to_dict().items()}
        if got != want:
            return False
        if history == "none":
            # projection onto b: the residues b has in those columns
            pf = aln.get_projected_feature(seqid="b", feature=f)
            if str(pf.get_slice()).replace("-", "") != want["b"].replace("-", ""):
                return False
            # and the same feature seen from the sequence itself
            sf = list(aln.get_seq("a").get_features())
            if len(sf) != 1 or str(sf[0].get_slice()) != on_strand("".join(ra[c] for c in res_cols[s:e])):
                return False
        return True

    return check
