"""C01 — sequence views obey the slice / reverse-complement algebra.

Engine E1 (CrossHair). O1..O4 quantify over unbounded ints (sequence length, start/stop, offset,
slice bounds); the pair (view step C, slice step F) is the shard key. O5 runs the public
Sequence API on a concrete generic parent with symbolic view parameters.
"""
from __future__ import annotations

from typing import Optional

from vlib import w as W
from vlib.core import Ob

PROPERTY_ID = "C01"
ENGINE = 'E1 CrossHair 0.0.110 (z3) on the real code'
TECHNIQUE = "CrossHair symbolic execution of the real SeqView / SliceRecord / Sequence code: one inductive slicing step from an arbitrary state satisfying the representation invariant (all integers symbolic and unbounded), z3 deciding every path; 'Confirmed over all paths' is the verdict; counterexamples replayed on the public API"
CLAIM = (
    "SeqView / SliceRecordABC (old, new, SeqDataView): constructor and one slicing step from ANY invariant-satisfying state equal "
    "Python slice semantics index-by-index (so chains of any depth do), coordinates name the displayed segment; read-only Sequence "
    "methods on views equal the same method on make_seq(str(view))."
)


# ---------------------------------------------------------------- reference model
def pyidx(n, a, b, c):
    """python slice normalisation -> (lo, length): k-th selected index of range(n)[a:b:c] = lo + k*c"""
    if c > 0:
        lo = 0 if a is None else (max(a + n, 0) if a < 0 else min(a, n))
        hi = n if b is None else (max(b + n, 0) if b < 0 else min(b, n))
        ln = max(0, (hi - lo + c - 1) // c)
    else:
        lo = n - 1 if a is None else (max(a + n, -1) if a < 0 else min(a, n - 1))
        hi = -1 if b is None else (max(b + n, -1) if b < 0 else min(b, n - 1))
        ln = max(0, (lo - hi + (-c) - 1) // (-c))
    return lo, ln


def inv(n, s, e, c):
    """representation invariant of a stored (start, stop, step)"""
    if c > 0:
        return 0 <= s <= e <= n
    return -n - 1 <= e <= s <= -1


def validate(tier):
    """pyidx against CPython's slice.indices on a grid (non-deciding)."""
    import itertools

    vals = [None, -7, -4, -3, -1, 0, 1, 2, 3, 5, 8]
    bad = 0
    cnt = 0
    for n in range(0, 6):
        for a, b in itertools.product(vals, vals):
            for c in (1, 2, 3, -1, -2, -3):
                r = range(n)[a:b:c]
                lo, ln = pyidx(n, a, b, c)
                cnt += 1
                if len(r) != ln or (ln and (r[0] != lo or r[-1] != lo + (ln - 1) * c)):
                    bad += 1
    return bad == 0, f"pyidx vs CPython slice on {cnt} cases: {bad} mismatches"


# ---------------------------------------------------------------- view factories
class _StubSeqsData:
    """stands in for SeqsData behind a SeqDataView: records what is read"""

    def __init__(self, n):
        self.n = n

    def get_seq_str(self, *, seqid, start=None, stop=None):
        return ("seg", start, stop)


def _alphabet():
    from cogent3.core import new_moltype

    return new_moltype.DNA.most_degen_alphabet()


_ALPHA = None


def make_view(kind, seq, n, off):
    """an untouched full-length view of the requested class"""
    global _ALPHA
    if kind == "old":
        from cogent3.core.sequence import SeqView

        return SeqView(seq=seq, offset=off, seqid="x")
    if kind == "new":
        from cogent3.core.new_sequence import SeqView

        if _ALPHA is None:
            _ALPHA = _alphabet()
        return SeqView(seq=seq, alphabet=_ALPHA, offset=off, seqid="x")
    from cogent3.core.new_alignment import SeqDataView

    return SeqDataView(seq=_StubSeqsData(n), seqid="x", seq_len=n, offset=off)


def raw_state(v, s, e, c):
    v.start, v.stop, v.step = s, e, c
    return v


# ---------------------------------------------------------------- O1 constructor
def mk_ctor(kind, C):
    def body(seq, n, a, b, off, k):
        if kind == "old":
            from cogent3.core.sequence import SeqView

            v = SeqView(seq=seq, start=a, stop=b, step=C, offset=off, seqid="x")
        elif kind == "new":
            from cogent3.core.new_sequence import SeqView

            v = SeqView(seq=seq, alphabet=None, start=a, stop=b, step=C, offset=off, seqid="x")
        else:
            from cogent3.core.new_alignment import SeqDataView

            v = SeqDataView(seq=None, seqid="x", seq_len=n, start=a, stop=b, step=C, offset=off)
        if not W.reach("end"):
            return False
        lo, ln = pyidx(n, a, b, C)
        if not inv(n, v.start, v.stop, v.step):
            return False
        if len(v) != ln or v.seq_len != n or v.offset != off:
            return False
        lo2, ln2 = pyidx(n, v.start, v.stop, v.step)
        if ln2 != ln:
            return False
        if ln == 0:
            return True
        if not W.reach("nonempty"):
            return False
        if v.step != C:
            return False
        if k < ln:
            return lo2 + k * v.step == lo + k * C
        return True

    if kind == "sdv":

        def check(n: int, a: Optional[int], b: Optional[int], off: int, k: int) -> bool:
            """
            pre: n >= 0 and k >= 0 and off >= 0
            post: _
            """
            _ = C  # closure reference so the precondition can see C
            return body(None, n, a, b, off, k)

    else:

        def check(seq: str, a: Optional[int], b: Optional[int], off: int, k: int) -> bool:
            """
            pre: k >= 0 and off >= 0
            post: _
            """
            _ = C  # closure reference so the precondition can see C
            return body(seq, len(seq), a, b, off, k)

    return check


# ---------------------------------------------------------------- O2 inductive slicing step
def mk_step(kind, C, F):
    def body(seq, n, s, e, off, d, g, k):
        v = raw_state(make_view(kind, seq, n, off), s, e, C)
        L = len(v)
        lo0, L0 = pyidx(n, s, e, C)
        if L != L0:
            return False
        w = v[d:g:F]
        if not W.reach("end"):
            return False
        lo1, L1 = pyidx(L, d, g, F)
        if len(w) != L1:
            return False
        if L1 == 0:
            return True
        if not W.reach("nonempty"):
            return False
        if not inv(w.seq_len, w.start, w.stop, w.step):
            return False
        if w.step != C * F:
            return False
        if w.seq_len != n or w.offset != off or w.seqid != "x":
            return False
        lo2, L2 = pyidx(w.seq_len, w.start, w.stop, w.step)
        if L2 != L1:
            return False
        if k < L1:
            return lo2 + k * w.step == lo0 + (lo1 + k * F) * C
        return True

    if kind == "sdv":

        def check(n: int, s: int, e: int, off: int, d: Optional[int], g: Optional[int], k: int) -> bool:
            """
            pre: n >= 0 and k >= 0 and off >= 0
            pre: inv(n, s, e, C)
            post: _
            """
            _ = C  # closure reference so the precondition can see C
            return body(None, n, s, e, off, d, g, k)

    else:

        def check(seq: str, s: int, e: int, off: int, d: Optional[int], g: Optional[int], k: int) -> bool:
            """
            pre: k >= 0 and off >= 0
            pre: inv(len(seq), s, e, C)
            post: _
            """
            _ = C  # closure reference so the precondition can see C
            return body(seq, len(seq), s, e, off, d, g, k)

    return check


# ---------------------------------------------------------------- O2b integer indexing
def mk_int_index(kind, C):
    def body(seq, n, s, e, off, i):
        v = raw_state(make_view(kind, seq, n, off), s, e, C)
        lo0, L0 = pyidx(n, s, e, C)
        should_raise = i >= L0 or i < -L0
        try:
            w = v[i]
        except IndexError:
            return should_raise and W.reach("raises")
        if should_raise:
            return False
        if not W.reach("end"):
            return False
        ii = i if i >= 0 else i + L0
        if len(w) != 1 or w.seq_len != n or w.offset != off:
            return False
        lo2, L2 = pyidx(w.seq_len, w.start, w.stop, w.step)
        if L2 != 1:
            return False
        # direction (and hence complementing) is kept
        if (w.step < 0) != (C < 0):
            return False
        return lo2 == lo0 + ii * C

    if kind == "sdv":

        def check(n: int, s: int, e: int, off: int, i: int) -> bool:
            """
            pre: n >= 0 and off >= 0
            pre: inv(n, s, e, C)
            post: _
            """
            _ = C  # closure reference so the precondition can see C
            return body(None, n, s, e, off, i)

    else:

        def check(seq: str, s: int, e: int, off: int, i: int) -> bool:
            """
            pre: off >= 0
            pre: inv(len(seq), s, e, C)
            post: _
            """
            _ = C  # closure reference so the precondition can see C
            return body(seq, len(seq), s, e, off, i)

    return check


# ---------------------------------------------------------------- O3 coordinates
def mk_coords(kind, C, part, NMAX=6):
    def body(seq, n, s, e, off, x):
        if part == 'abs' and n > NMAX:
            return True
        v = raw_state(make_view(kind, seq, n, off), s, e, C)
        lo0, L0 = pyidx(n, s, e, C)
        if L0 == 0:
            return True
        if not W.reach("end"):
            return False
        first = lo0
        last = lo0 + (L0 - 1) * C
        mn = first if C > 0 else last
        mx = last if C > 0 else first
        ps, pe = v.parent_start, v.parent_stop
        if v.is_reversed != (C < 0):
            return False
        if C in (1, -1):
            if not (ps == off + mn and pe == off + mx + 1):
                return False
        else:
            # enclosing segment, inside the parent, never cutting a displayed residue
            if not (off <= ps <= off + mn and off + mx + 1 <= pe <= off + n):
                return False
            # tight at the end the view starts from
            if C > 0 and ps != off + mn:
                return False
            if C < 0 and pe != off + mx + 1:
                return False
        if part == "parent":
            return True
        # relative <-> absolute round trip on the view's own positions
        if not (0 <= x < L0):
            return True
        if not W.reach("abs"):
            return False
        ab = v.absolute_position(x)
        if C > 0:
            want = off + lo0 + x * C
        else:
            want = off + (lo0 + x * C) + 1  # boundary convention on the minus strand
        if ab != want:
            return False
        return v.relative_position(ab) == x

    if kind == "sdv":

        def check(n: int, s: int, e: int, off: int, x: int) -> bool:
            """
            pre: n >= 0 and off >= 0
            pre: inv(n, s, e, C)
            post: _
            """
            _ = C  # closure reference so the precondition can see C
            return body(None, n, s, e, off, x)

    else:

        def check(seq: str, s: int, e: int, off: int, x: int) -> bool:
            """
            pre: off >= 0
            pre: inv(len(seq), s, e, C)
            post: _
            """
            _ = C  # closure reference so the precondition can see C
            return body(seq, len(seq), s, e, off, x)

    return check


# ---------------------------------------------------------------- O3b SeqDataView.str_value reads the right segment
def mk_sdv_value(C):
    def check(n: int, s: int, e: int, k: int) -> bool:
        """
        pre: n >= 0 and k >= 0
        pre: inv(n, s, e, C)
        post: _
        """
        v = raw_state(make_view("sdv", None, n, 0), s, e, C)
        lo0, L0 = pyidx(n, s, e, C)
        if L0 == 0:
            return True
        tag, a, b = v.seq.get_seq_str(seqid="x", start=v.parent_start, stop=v.parent_stop)
        if not W.reach("end"):
            return False
        # str_value = raw if step == 1 else raw[::step], raw = data[a:b]
        if not (0 <= a <= b <= n):
            return False
        m = b - a
        lo1, L1 = pyidx(m, None, None, C)
        if L1 != L0:
            return False
        if k >= L0:
            return True
        return a + lo1 + k * C == lo0 + k * C

    return check


# ---------------------------------------------------------------- O4 export re-basing (shared with C10)
class SymSeq:
    """stand-in for the parent string whose *content* is irrelevant: knows its (symbolic) length and
    where it starts in the original parent; slicing follows Python semantics via pyidx."""

    def __init__(self, n, base=0):
        self.n = n
        self.base = base

    def __len__(self):
        return self.n

    # content-level no-ops (case folding, T/U exchange): content is not modelled
    def replace(self, old, new):
        assert len(old) == len(new)
        return self

    def upper(self):
        return self

    def __getitem__(self, sl):
        assert isinstance(sl, slice) and sl.step is None
        lo, ln = pyidx(self.n, sl.start, sl.stop, 1)
        return SymSeq(ln, self.base + lo)


def _parent_seq(n):
    if W.PLAIN:
        return "".join(chr(48 + i) for i in range(n))  # distinct characters: position is readable from content
    return SymSeq(n)


def _base_of(tseq):
    if isinstance(tseq, SymSeq):
        return tseq.base
    return (ord(tseq[0]) - 48) if len(tseq) else 0


def mk_export(kind, C, via):
    def check(n: int, s: int, e: int, off: int, k: int) -> bool:
        """
        pre: n >= 0 and k >= 0 and off >= 0
        pre: inv(n, s, e, C)
        post: _
        """
        seq = _parent_seq(n)
        v = raw_state(make_view(kind, seq, n, off), s, e, C)
        lo0, L0 = pyidx(n, s, e, C)
        w = None
        if via == "copy":
            w = v.copy(sliced=True)
            tseq = w.seq
        else:
            if kind == "new":
                v.alphabet = _StubAlphabet()
            d = v.to_rich_dict()
            tseq = d["init_args"]["seq"]
            if d["init_args"]["step"] != C:
                return False
            if kind == "old":
                w = type(v).from_rich_dict(d)
        if not W.reach("end"):
            return False
        if L0 == 0:
            return w is None or len(w) == 0
        if not W.reach("nonempty"):
            return False
        if w is None:
            lo2, L2 = pyidx(len(tseq), None, None, C)
        else:
            if w.step != C:
                return False
            lo2, L2 = pyidx(w.seq_len, w.start, w.stop, w.step)
            if len(w) != L0:
                return False
        if L2 != L0:
            return False
        if k >= L0:
            return True
        # k-th index inside the truncated string + where the truncated string starts = k-th index of the original
        return _base_of(tseq) + lo2 + k * C == lo0 + k * C

    return check


class _StubAlphabet:
    def to_rich_dict(self):
        return {}


# ---------------------------------------------------------------- O5 methods on views == methods on make_seq(str(view))
PARENTS = {
    "dna": "ACGTRYNA",
    "rna": "ACGURYNA",
    "protein": "ACDEFBXK",
}


def _mk_seq(style, mt, text):
    if style == "old":
        from cogent3.core import moltype

        return getattr(moltype, {"dna": "DNA", "rna": "RNA", "protein": "PROTEIN"}[mt]).make_seq(seq=text, name="s")
    from cogent3.core import new_moltype

    return getattr(new_moltype, {"dna": "DNA", "rna": "RNA", "protein": "PROTEIN"}[mt]).make_seq(seq=text, name="s")


def _norm(x):
    """comparable form of a method result"""
    import numpy

    if hasattr(x, "moltype") and hasattr(x, "name"):
        return ("seq", str(x), type(x).__name__)
    if isinstance(x, numpy.ndarray):
        return ("arr", x.tolist())
    if isinstance(x, (list, tuple)):
        return tuple(_norm(i) for i in x)
    if isinstance(x, dict):
        return tuple(sorted((str(k), _norm(v)) for k, v in x.items()))
    if isinstance(x, (str, int, float, bool)) or x is None:
        return x
    if hasattr(x, "to_dict"):
        return ("todict", _norm(x.to_dict()))
    return ("repr", type(x).__name__, str(x))


def _run(fn, q, _retry=True):
    try:
        return ("ok", _norm(fn(q)))
    except TypeError as e:
        # CrossHair artefact: a memo dict of the moltype keyed by a (frozen)set of proxy strings ("__hash__ method should return an
        # integer"); the failed attempt leaves the table filled, the second attempt is the method's real answer
        if _retry and "__hash__ method should return an integer" in str(e):
            return _run(fn, q, _retry=False)
        return ("exc", type(e).__name__)
    except Exception as e:  # same failure on both sides counts as same answer
        return ("exc", type(e).__name__)


METHODS = {
    # name: (callable on seq, moltypes)
    "str": (lambda q: str(q), "dna rna protein"),
    "len": (lambda q: len(q), "dna rna protein"),
    "iter": (lambda q: list(q), "dna rna protein"),
    "to_rna": (lambda q: q.to_rna(), "dna"),
    "to_dna": (lambda q: q.to_dna(), "rna"),
    "to_moltype": (lambda q: q.to_moltype("rna" if q.moltype.label == "dna" else "dna"), "dna rna"),
    "count": (lambda q: (q.count("A"), q.count("CG"), q.count("T")), "dna rna protein"),
    "counts": (lambda q: q.counts(), "dna rna protein"),
    "rc": (lambda q: q.rc(), "dna rna"),
    "complement": (lambda q: q.complement(), "dna rna"),
    "is_degenerate": (lambda q: q.is_degenerate(), "dna rna protein"),
    "degap": (lambda q: q.degap(), "dna rna protein"),
    "resolved_ambiguities": (lambda q: q.resolved_ambiguities(), "dna rna"),
    "iter_kmers": (lambda q: list(q.iter_kmers(2)), "dna rna protein"),
    "get_in_motif_size": (lambda q: q.get_in_motif_size(3), "dna rna protein"),
    "gap_vector": (lambda q: q.gap_vector(), "dna"),
    "mw": (lambda q: round(q.mw(), 6), "dna protein"),
    "first_degenerate": (lambda q: q.first_degenerate(), "dna rna"),
    "disambiguate_strip": (lambda q: q.disambiguate("strip"), "dna rna"),
    "can_pair": (lambda q: q.can_pair(q.rc()), "dna"),
    "get_translation": (lambda q: q.get_translation(incomplete_ok=True), "dna"),
    "getitem_rc": (lambda q: q[1:].rc(), "dna rna"),
    "add": (lambda q: q + q, "dna"),
    "replace": (lambda q: q.replace("A", "C"), "dna protein"),
    "contains": (lambda q: ("AC" in q, "GT" in q), "dna"),
    "to_array": (lambda q: q.to_array(), "dna"),
    "parent_coordinates_consistent": (None, "dna rna protein"),
}


def mk_method(style, mt, method, step, rc):
    parent = PARENTS[mt]
    n = len(parent)
    fn = METHODS[method][0]
    if fn is not None:
        # warm-up outside tracing: lazily built tables / imports of the method (get_translation raised a TypeError the first
        # time it ran under CrossHair tracing and not afterwards: a tracing artefact, not behaviour of the method)
        try:
            fn(_mk_seq(style, mt, parent))
        except Exception:  # noqa
            pass

    def check(a: Optional[int], b: Optional[int]) -> bool:
        """
        pre: a is None or -n - 2 <= a <= n + 2
        pre: b is None or -n - 2 <= b <= n + 2
        post: _
        """
        p = _mk_seq(style, mt, parent)
        v = p[a:b:step]
        if rc:
            v = v.rc()
        text = str(v)
        if not W.reach("end"):
            return False
        if len(text) >= 2 and not W.reach("len2"):
            return False
        if method == "parent_coordinates_consistent":
            # (seqid, start, stop, strand) names the displayed segment
            if style == "old":
                sid, ps, pe, strand = v.parent_coordinates()
            else:
                sid, ps, pe, strand = v.parent_coordinates()
            if len(text) == 0:
                return True
            seg = p[ps:pe]
            if strand in (-1, "-"):
                seg = seg.rc() if mt != "protein" else seg[::-1]
            seg = str(seg)
            astep = abs(step)
            return sid == "s" and seg[::astep] == text
        fresh = _mk_seq(style, mt, text)
        return _run(fn, v) == _run(fn, fresh)

    return check


# ---------------------------------------------------------------- registry
ENCODED = [
    (
        "src/cogent3/core/sequence.py",
        ["_input_vals_pos_step", "_input_vals_neg_step", "SeqView.__init__", "SliceRecordABC.__len__", "SliceRecordABC.__getitem__",
         "SliceRecordABC._get_index", "SliceRecordABC._get_slice", "SliceRecordABC._get_reverse_slice",
         "SliceRecordABC._get_forward_slice_from_forward_seqview_", "SliceRecordABC._get_forward_slice_from_reverse_seqview_",
         "SliceRecordABC._get_reverse_slice_from_forward_seqview_", "SliceRecordABC._get_reverse_slice_from_reverse_seqview_",
         "SliceRecordABC.parent_start", "SliceRecordABC.parent_stop", "SliceRecordABC.absolute_position",
         "SliceRecordABC.relative_position", "SeqView.to_rich_dict", "SeqView.from_rich_dict", "SeqView.copy",
         "Sequence.__getitem__", "NucleicAcidSequence.rc", "Sequence.__str__", "Sequence.parent_coordinates", "Sequence.to_moltype",
         "Sequence.resolved_ambiguities", "Sequence read-only methods listed in METHODS"]),
    ("src/cogent3/core/new_sequence.py", ["_input_vals_pos_step", "_input_vals_neg_step", "SliceRecordABC (all slicing/coordinate methods)", "SeqView.__init__", "SeqView.to_rich_dict", "SeqView.copy", "Sequence read-only methods listed in METHODS"]),
    ("src/cogent3/core/new_alignment.py", ["SeqDataView.__init__", "SeqDataView._zero_slice", "SeqDataView.str_value (segment request)"]),
]
BOUNDS = {
    "quick": [
        "view step C and slice step F are shard keys: |C| <= 3, |F| <= 2 (O2), |C| <= 3 (O1, O2b, O3, O4)",
        "sequence length, stored start/stop, offset, slice start/stop, probe index: unbounded integers (O1-O4); exception: absolute_position/relative_position round trip has sequence length <= 6 (their `if not self` forces CrossHair to realise len)",
        "O5: parent content is one fixed generic string per moltype (8 letters incl. two degenerate symbols); slice bounds a,b symbolic in [-n-2, n+2] or None; step in {1,-1}; optional trailing .rc()",
    ],
    "thorough": [
        "view step C and slice step F are shard keys: |C| <= 6, |F| <= 4 (O2), |C| <= 6 (others)",
        "sequence length, stored start/stop, offset, slice start/stop, probe index: unbounded integers (O1-O4); exception: absolute_position/relative_position round trip has sequence length <= 6 (their `if not self` forces CrossHair to realise len)",
        "O5: fixed generic parent per moltype; a,b symbolic in [-n-2, n+2] or None; step in {1,-1,2,-2}; optional trailing .rc()",
    ],
}
ASSUMPTIONS = [
    "O2/O3/O4 start from ANY state satisfying the representation invariant Inv (step>0: 0<=start<=stop<=n; step<0: -n-1<=stop<=start<=-1), a superset of reachable states",
    "offset >= 0; SeqDataView offset = 0 for str_value (SeqsData offsets are not implemented upstream)",
    "symbolic str content is never inspected in O1-O4 (only its length); characters are covered by O5 on concrete content",
    "seqid fixed to 'x'/'s'",
]
OUTSIDE = ["new-style to_rna/to_dna/to_moltype/to_array (numpy.array(self) is dispatched at C level; under CrossHair tracing it takes another route, so counterexamples there do not replay: excluded)", "|steps| beyond the shard bound", "array_value / bytes_value realisations (numpy, C level)", "non-ASCII content", "symbolic sequence content in method comparison (CrossHair asserts internally on moltype.complement of a symbolic str)"]
TRUSTED = ["the 12-line pyidx model of slice.indices (validated against CPython on a grid each run)"]

_NEW_NUMPY_METHODS = {"to_rna", "to_dna", "to_moltype", "to_array"}  # numpy.array(self) at C level: behaves differently under CrossHair tracing (probed), not decidable
_Q_METHODS = ["str", "len", "iter", "to_rna", "to_dna", "to_moltype", "count", "rc", "complement", "resolved_ambiguities", "iter_kmers",
              "get_in_motif_size", "is_degenerate", "replace", "add", "contains", "parent_coordinates_consistent", "getitem_rc", "degap"]


def obligations(tier):
    T = tier == "thorough"
    obs = []
    Cs = [c for c in range(-6, 7) if c] if T else [c for c in range(-3, 4) if c]
    Fs = [f for f in range(-4, 5) if f] if T else [-2, -1, 1, 2]
    for kind in ("old", "new", "sdv"):
        for C in Cs:
            if kind != "sdv" or True:
                obs.append(Ob(f"O1_ctor/{kind}/C{C}", __name__, "mk_ctor", {"kind": kind, "C": C}, timeout=600, twins=("end", "nonempty"), group="O1"))
            obs.append(Ob(f"O2b_int/{kind}/C{C}", __name__, "mk_int_index", {"kind": kind, "C": C}, timeout=600, twins=("end", "raises"), group="O2"))
            obs.append(Ob(f"O3_parent_coords/{kind}/C{C}", __name__, "mk_coords", {"kind": kind, "C": C, "part": "parent"}, timeout=600, group="O3"))
            obs.append(Ob(f"O3_abs_rel_position/{kind}/C{C}", __name__, "mk_coords", {"kind": kind, "C": C, "part": "abs"}, timeout=900, twins=("end", "abs"), group="O3"))
            for F in Fs:
                if kind != "old" and not T and (abs(C) > 2):
                    continue
                obs.append(Ob(f"O2_step/{kind}/C{C}/F{F}", __name__, "mk_step", {"kind": kind, "C": C, "F": F}, timeout=900, twins=("end", "nonempty"), group="O2"))
        for C in Cs:
            if kind == "sdv":
                obs.append(Ob(f"O3b_sdv_value/C{C}", __name__, "mk_sdv_value", {"C": C}, timeout=600, group="O3"))
            else:
                for via in ("copy", "dict"):
                    obs.append(Ob(f"O4_export/{kind}/{via}/C{C}", __name__, "mk_export", {"kind": kind, "C": C, "via": via}, timeout=600, twins=("end", "nonempty"), group="O4"))
    steps = [1, -1, 2, -2] if T else [1, -1]
    for style in ("old", "new"):
        for mt in ("dna", "rna", "protein"):
            for method in (METHODS if T else _Q_METHODS):
                fn, mts = METHODS[method]
                if mt not in mts.split():
                    continue
                if style == "new" and method in _NEW_NUMPY_METHODS:
                    continue
                for step in steps:
                    if mt == "protein" and step < 0 and style == "old":
                        pass
                    for rc in ([False, True] if mt != "protein" else [False]):
                        if not T and rc and step < 0:
                            continue
                        obs.append(Ob(f"O5/{style}/{mt}/{method}/step{step}/rc{int(rc)}", __name__, "mk_method",
                                      {"style": style, "mt": mt, "method": method, "step": step, "rc": rc}, timeout=900, twins=("end", "len2"), group="O5"))
    return obs


def classify(name, args, cex, rep):
    if name.startswith("O5/"):
        return f"{args['style']}-Sequence.{args['method']}:wrong-on-reversed-view" if (args["step"] < 0 or args["rc"]) else f"{args['style']}-Sequence.{args['method']}:wrong-on-forward-view"
    return None
