"""C10 — serialisable objects round-trip in whatever state they are (views, maps, rows).

Engine E1 (CrossHair), rich-dict level (json.dumps/loads is a C encoder: identity on the ints / lists / strings involved).
"""
from __future__ import annotations

from props import c01, c03, c08
from vlib import w as W
from vlib.core import Ob

PROPERTY_ID = "C10"
ENGINE = 'E1 CrossHair 0.0.110 (z3) on the real code'
TECHNIQUE = 'CrossHair symbolic execution of to_rich_dict / from_rich_dict / deserialise of views, sequences, indel and feature maps, aligned rows and trees in symbolic states (slice state, gap layout, termini flag, branch lengths); observational equality decided on all paths'
CLAIM = (
    "for sequence views in ANY invariant-satisfying state, indel maps and feature maps with symbolic coordinates, and alignment rows built from them: "
    "to_rich_dict followed by the registered deserialiser gives an object that reads the same residues index by index, reports the same parent coordinates and the same map."
)

def _py_hasattr(o, n):
    """hasattr written in Python: CrossHair's own hasattr / getattr evaluate properties with tracing off, which breaks on
    symbolic arithmetic. Properties are called through fget (a normal traced call)."""
    for klass in type(o).__mro__:
        if n in klass.__dict__:
            attr = klass.__dict__[n]
            if isinstance(attr, property):
                try:
                    attr.fget(o)
                    return True
                except AttributeError:
                    return False
            return True
    try:
        return n in object.__getattribute__(o, "__dict__")
    except AttributeError:
        return False


def setup_symbolic():
    c08.setup_symbolic()
    import cogent3.core.sequence as S

    S.hasattr = _py_hasattr


def _clone(d):
    """stands in for json.loads(json.dumps(d)) on plain containers (keeps symbolic leaves)"""
    if isinstance(d, dict):
        return {k: _clone(v) for k, v in d.items()}
    if isinstance(d, (list, tuple)):
        return [_clone(v) for v in d]
    return d


def mk_indelmap(G):
    def check(p0: int, p1: int, l0: int, l1: int, tail: int, j: int, tu: bool) -> bool:
        """
        pre: c08.pre_layout(G, p0, p1, 0, l0, l1, 0, tail)
        pre: j >= 0
        post: _
        """
        import cogent3.core.location as L
        from cogent3.util.deserialise import deserialise_object

        gp, gl, plen = c08.layout(G, p0, p1, 0, l0, l1, 0, tail)
        m = c08.mkmap(gp, gl, plen)
        if tu:
            m = m.with_termini_unknown()  # terminal gaps are 'unknown' (shown as ?), as Alignment.with_modified_termini makes them
            if not W.reach("termini_unknown"):
                return False
        d = _clone(m.to_rich_dict())
        r = deserialise_object(d) if W.PLAIN else L.IndelMap.from_rich_dict(d)
        if not W.reach("end"):
            return False
        if [x for x in r.gap_pos] != gp or [x for x in r.cum_gap_lengths] != c08.cum(gl) or r.parent_length != plen:
            return False
        if bool(r.termini_unknown) != bool(tu):
            return False
        if [type(x).__name__ for x in r.spans] != [type(x).__name__ for x in m.spans]:
            return False  # TerminalPadding vs _LostSpan: what the gap is displayed as
        if len(r) != len(m):
            return False
        if j < len(m):
            return r.get_seq_index(j) == m.get_seq_index(j)
        return True

    return check


def mk_featuremap(kinds):
    def check(s0: int, n0: int, s1: int, n1: int, s2: int, n2: int, plen: int) -> bool:
        """
        pre: s0 >= 0 and s1 >= 0 and s2 >= 0 and n0 > 0 and n1 > 0 and n2 > 0
        pre: s0 + n0 <= plen and s1 + n1 <= plen and s2 + n2 <= plen
        post: _
        """
        import cogent3.core.location as L

        vals = [(s0, n0), (s1, n1), (s2, n2)]
        vals = [v if k == "S" else (v[1],) for k, v in zip(kinds, vals)]
        fm = c08.fmap(kinds, vals, plen)
        d = _clone(fm.to_rich_dict())
        r = L.FeatureMap.from_rich_dict(d)
        if not W.reach("end"):
            return False
        a, b = list(fm.spans), list(r.spans)
        if len(a) != len(b) or r.parent_length != plen or len(r) != len(fm):
            return False
        for x, y in zip(a, b):
            if x.lost != y.lost:
                return False
            if x.lost:
                if len(x) != len(y):
                    return False
            elif (x.start, x.end, x.reverse) != (y.start, y.end, y.reverse):
                return False
        return r.start == fm.start and r.end == fm.end

    return check


def mk_sequence(C):
    """old-style Sequence over a view in any state: to_rich_dict -> deserialise_seq"""

    def check(n: int, s: int, e: int, off: int, k: int) -> bool:
        """
        pre: n >= 0 and k >= 0 and off >= 0
        pre: c01.inv(n, s, e, C)
        post: _
        """
        from cogent3.core.sequence import DnaSequence, SeqView
        from cogent3.util.deserialise import deserialise_seq

        sv = SeqView(seq=c01._parent_seq(n), seqid="s", offset=off)
        sv.start, sv.stop, sv.step = s, e, C
        sq = DnaSequence(sv, name="s", check=False)
        lo0, L0 = c01.pyidx(n, s, e, C)
        d = _clone(sq.to_rich_dict())
        r = deserialise_seq(d)
        if not W.reach("end"):
            return False
        if L0 == 0:
            return len(r) == 0
        if not W.reach("nonempty"):
            return False
        v2 = r._seq
        lo2, L2 = c01.pyidx(v2.seq_len, v2.start, v2.stop, v2.step)
        if L2 != L0 or v2.step != C or r.name != "s":
            return False
        # same parent coordinates (so annotations keep pointing at the same residues)
        if sq.parent_coordinates() != r.parent_coordinates():
            return False
        if k >= L0:
            return True
        return c01._base_of(v2.seq) + lo2 + k * C == lo0 + k * C

    return check


def mk_aligned(G, C):
    def check(p0: int, p1: int, l0: int, l1: int, tail: int, n: int, vs: int, j: int) -> bool:
        """
        pre: c03.pre_row(G, p0, p1, l0, l1, tail, n, vs)
        pre: j >= 0
        post: _
        """
        from cogent3.core.alignment import Aligned

        al, gp, gl, plen = c03.make_row(G, p0, p1, l0, l1, tail, n, vs, C)
        d = _clone(al.to_rich_dict())
        r = Aligned.from_rich_dict(d)
        if not W.reach("end"):
            return False
        if len(r) != len(al) or not c03.consistent(r):
            return False
        if plen and al.data.parent_coordinates() != r.data.parent_coordinates():
            return False
        if j >= len(al):
            return True
        g1, i1, s1 = c03.sem(al, j)
        g2, i2, s2 = c03.sem(r, j)
        if g1 != g2:
            return False
        if g1:
            return True
        # the rebuilt row's sequence is a truncated copy: compare through where the truncated string starts
        v2 = r.data._seq
        return s1 == s2 and i2 + c01._base_of(v2.seq) == i1

    return check


ENCODED = [
    ("src/cogent3/core/alignment.py", ["SequenceCollection / Alignment / ArrayAlignment .to_rich_dict", "Aligned.to_rich_dict", "__getitem__ / rc / take_seqs before export"]),
    ("src/cogent3/util/deserialise.py", ["deserialise_object", "deserialise_seq_collections", "deserialise_seq", "deserialise_map_spans / deserialise_indelmap"]),
    ("src/cogent3/core/sequence.py", ["SeqView.to_rich_dict", "SeqView.from_rich_dict", "SeqView.copy(sliced=True)", "Sequence.to_rich_dict", "Sequence.parent_coordinates"]),
    ("src/cogent3/core/new_sequence.py", ["SeqView.to_rich_dict", "SeqView.copy(sliced=True)"]),
    ("src/cogent3/util/deserialise.py", ["deserialise_seq", "_from_seqview", "deserialise_seqview", "deserialise_indelmap (plain replay)"]),
    ("src/cogent3/core/location.py", ["IndelMap.to_rich_dict", "IndelMap.from_rich_dict", "FeatureMap.to_rich_dict", "FeatureMap.from_rich_dict", "Span.to_rich_dict", "_LostSpan.to_rich_dict"]),
    ("src/cogent3/core/alignment.py", ["Aligned.to_rich_dict", "Aligned.from_rich_dict"]),
]
BOUNDS = {
    "quick": ["views: any invariant-satisfying (start, stop) on a parent of any length, step C in {-3..3}\\{0}, any offset >= 0", "indel maps: <= 2 gap runs, unbounded coordinates; feature maps: <= 3 spans (spans and lost spans)",
              "alignment rows: <= 1 gap run (thorough 2), both strands", "Table (3 rows, symbolic cells in 0..2 / {0, 0.5}, after none / sorted / get_columns / filtered / appended), DictArray and DistanceMatrix (symbolic cells) through JSON and back", "whole objects: SequenceCollection / Alignment / ArrayAlignment of 2 rows x 3 columns with symbolic content (3 symbolic characters of row a over {A,C,-,N} (2 with a slice), first of row b over {G,-}), after none / slice[i:j] / rc / take_seqs / slice+rc, through JSON and back, twice", "trees: to_rich_dict -> deserialise_tree for every shape with 3..4 tips (thorough 5) and symbolic branch lengths (names fixed)"],
    "thorough": ["as quick with C in {-6..6}\\{0}; rows with <= 2 gap runs; whole objects with 3 symbolic characters"],
}
ASSUMPTIONS = c01.ASSUMPTIONS[:2] + [
    "rich-dict level: json.dumps / json.loads are replaced by a structural copy (identity on ints, lists, str)",
    "sequence content is not inspected: the parent is a stub of symbolic length that records where a truncated copy starts (distinct-character string in plain replay)",
    "numpy object arrays stand in for integer arrays in maps",
    "cogent3.core.sequence.hasattr rebound to an equivalent pure-Python hasattr (CrossHair's patched hasattr evaluates properties with tracing disabled)",
]
OUTSIDE = ["the other registered types: trees' JSON *text* (float formatting), alphabets, moltypes, annotation dbs, substitution models, likelihood functions, app results, NotCompleted; pickling (numpy / JSON / SQLite / pickle at C level: no symbolic content reaches an assertion)"]
TRUSTED = ["C01 slice model, C08 gap-run reader"]


def obligations(tier):
    T = tier == "thorough"
    obs = []
    Cs = [c for c in range(-6, 7) if c] if T else [c for c in range(-3, 4) if c]
    for kind in ("old", "new"):
        for C in Cs:
            for via in ("copy", "dict"):
                obs.append(Ob(f"seqview_export/{kind}/{via}/C{C}", "props.c01", "mk_export", {"kind": kind, "C": C, "via": via}, timeout=600, twins=("end", "nonempty"), group="seqview"))
    for C in Cs:
        obs.append(Ob(f"sequence_roundtrip/C{C}", __name__, "mk_sequence", {"C": C}, timeout=900, twins=("end", "nonempty"), group="sequence"))
    for G in (0, 1, 2):
        obs.append(Ob(f"indelmap/G{G}", __name__, "mk_indelmap", {"G": G}, timeout=900, twins=("end", "termini_unknown"), group="maps"))
    for kinds in ("S", "SS", "SLS", "LSL", "L"):
        obs.append(Ob(f"featuremap/{kinds}", __name__, "mk_featuremap", {"kinds": kinds}, timeout=900, group="maps"))
    from props import c09

    for sh in c09.all_shapes(5 if T else 4) + c09.EXTRA[:1]:
        obs.append(Ob(f"tree_rich_dict/{sh['id']}", "props.c09", "mk", {"shape_id": sh["id"], "op": "rich_dict"}, timeout=600, group="tree"))
    for C in (1, -1):
        for G in ((0, 1, 2) if T else (0, 1)):
            obs.append(Ob(f"aligned/G{G}/C{C}", __name__, "mk_aligned", {"G": G, "C": C}, timeout=1200, group="rows"))
    from props import c10_objects

    for kind in c10_objects.KINDS:
        for hist in c10_objects.HISTORIES:
            if kind == "SequenceCollection" and hist in ("slice", "slice_rc"):
                continue
            obs.append(Ob(f"objects/{kind}/{hist}", "props.c10_objects", "mk_object", {"kind": kind, "history": hist, "nsym": 3 - (1 if hist.startswith("slice") else 0)}, timeout=1800, group="objects", grade="realised-input"))
    for hist in c10_objects.TABLE_HISTORIES:
        obs.append(Ob(f"objects/Table/{hist}", "props.c10_objects", "mk_table_object", {"history": hist}, timeout=1800, group="objects", grade="realised-input"))
    for kind in ("DictArray", "DistanceMatrix"):
        obs.append(Ob(f"objects/{kind}", "props.c10_objects", "mk_dictarray_object", {"kind": kind}, timeout=900, group="objects", grade="realised-input"))
    return obs


def classify(name, args, cex, rep):
    if name.startswith("objects/"):
        return None
    if name.startswith("sequence_roundtrip"):
        return "Sequence.to_rich_dict:roundtrip"
    if name.startswith("aligned/"):
        return "Aligned.to_rich_dict:roundtrip"
    return None
