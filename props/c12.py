"""C12 — translation and complementing follow the genetic-code tables.

E1 (CrossHair): the real new GeneticCode.translate body, the real KmerAlphabet.to_indices and the k-mer index kernel (.py_func)
run on a sequence of symbolic bases; only the final byte-translate C call is replaced by the table extracted from the real converter.
E4 (z3, finite domain): per-code plus / minus tables vs the NCBI string, old vs new code objects, complement and ambiguity tables.
"""
from __future__ import annotations

import time

import z3

from vlib import w as W
from vlib.core import Ob

PROPERTY_ID = "C12"
ENGINE = "E1 CrossHair (frame logic + k-mer kernel on symbolic bases) + E4 z3 finite-domain tables"
TECHNIQUE = "symbolic execution (CrossHair/z3) of GeneticCode.translate, KmerAlphabet.to_indices and seq_to_kmer_indices.py_func on symbolic bases with the byte-translate table extracted from the real converter; z3 finite-domain queries over tables extracted from the real genetic-code, complement and ambiguity objects"
CLAIM = (
    "for every NCBI code the plus/minus converter tables equal the code's NCBI string on every canonical codon and '-'/'X' on gapped / ambiguous codons, old and new code objects agree codon by codon; "
    "for every sequence of <= 9 symbolic bases, frame and strand, GeneticCode.translate equals the codon-wise NCBI lookup; complement is the base-set complement and an involution, resolve/what_ambiguity are mutual inverses."
)

NCBI_ORDER = "TCAG"
COMP = {0: 2, 1: 3, 2: 0, 3: 1}  # T<->A, C<->G in TCAG index space


def setup_symbolic():
    """Only the two Python functions on the path get patched globals (jitted functions elsewhere in new_alphabet still see the real
    numpy): the ndarray implementation of KmerAlphabet.to_indices and the k-mer kernel's Python source."""
    import types

    import numpy

    from cogent3.core import new_alphabet as NA

    class ObjArr(numpy.ndarray):
        def tobytes(self, *a, **k):  # the real code hands .tobytes() to a C translate call: keep the indices themselves
            return [x for x in self]

        def astype(self, dtype, *a, **k):
            # translate() casts the codon indices to one byte each before tobytes(); on this object array the cast would realise every
            # symbolic index (enumeration of all base combinations). The indices stay symbolic; an index outside 0..65 fails the table
            # lookup of the harness, and the width of the real integer arrays is the translate_index_width obligation.
            if numpy.dtype(dtype).kind in "ui":
                return self
            return numpy.ndarray.astype(self, dtype, *a, **k)

    def zeros(shape, dtype=None):
        return numpy.empty(shape, dtype=object).view(ObjArr)

    shim = types.SimpleNamespace(**{k: getattr(numpy, k) for k in dir(numpy) if not k.startswith("__")})
    shim.zeros = zeros

    def clone(fn, extra):
        g = dict(fn.__globals__)
        g.update(extra)
        new = types.FunctionType(fn.__code__, g, fn.__name__, fn.__defaults__, fn.__closure__)
        new.__kwdefaults__ = fn.__kwdefaults__
        return new

    kernel = clone(NA.seq_to_kmer_indices.py_func, {"coord_to_index": NA.coord_to_index.py_func})
    disp = NA.KmerAlphabet.__dict__["to_indices"].dispatcher
    impl = disp.registry[numpy.ndarray]
    _PATCH["disp"], _PATCH["real"], _PATCH["symbolic"] = disp, impl, clone(impl, {"numpy": shim, "seq_to_kmer_indices": kernel})
    _use_symbolic_kernel(True)


_PATCH = {}


def _use_symbolic_kernel(on):
    """the object-dtype clone of KmerAlphabet.to_indices is only for the harnesses that feed it symbolic codes; the entry-point
    harnesses (get_translation) run the unmodified registration (one worker process serves several obligations)"""
    import numpy

    if _PATCH and _PATCH.get("on") != on:
        _PATCH["disp"].register(numpy.ndarray, _PATCH["symbolic"] if on else _PATCH["real"])
        _PATCH["on"] = on


class _AA(list):
    def decode(self, enc):
        return self


def _stub_code(code_id):
    """copy of the real new GeneticCode whose two byte-level converters are replaced by the tables extracted from them"""
    import copy

    from cogent3.core import new_genetic_code as G

    gc = G.get_code(code_id)
    n = len(gc.codons) if hasattr(gc.codons, "__len__") else 66
    plus = list(gc._translate_plus(bytes(range(66))))
    minus = list(gc._translate_minus(bytes(range(66))))
    st = copy.copy(gc)
    st._translate_plus = lambda idx: _AA(plus[i] for i in idx)
    st._translate_minus = lambda idx: _AA(minus[i] for i in idx)
    return gc, st, plus, minus


def mk_frames(code_id, n, start, rc, mode):
    """mode: 'plus' | 'rc_documented' (translation of the reverse complement, frame counted on the reverse complement, as the old
    sixframes does) | 'rc_same_frame_set' (the frame the new code actually numbers: (n-start)%3 on the reverse complement)"""
    import numpy

    from cogent3.core import new_genetic_code as G

    ncbi = [ord(ch) for ch in dict((c[1], c[0]) for c in G.code_mapping)[code_id]]

    def check(b0: int, b1: int, b2: int, b3: int, b4: int, b5: int, b6: int, b7: int, b8: int) -> bool:
        """
        pre: 0 <= b0 <= 3 and 0 <= b1 <= 3 and 0 <= b2 <= 3 and 0 <= b3 <= 3 and 0 <= b4 <= 3
        pre: 0 <= b5 <= 3 and 0 <= b6 <= 3 and 0 <= b7 <= 3 and 0 <= b8 <= 3
        post: _
        """
        bases = [b0, b1, b2, b3, b4, b5, b6, b7, b8][:n]
        _use_symbolic_kernel(True)
        if W.PLAIN:
            gc = G.get_code(code_id)
            text = "".join(NCBI_ORDER[b] for b in bases)
            got = [ord(ch) for ch in gc.translate(text, start, rc=rc)]
        else:
            gc, st, plus, minus = _stub_code(code_id)
            dna = numpy.empty(n, dtype=object)
            for i, b in enumerate(bases):
                dna[i] = b
            got = [x for x in st.translate(dna, start, rc=rc)]
        if not W.reach("end"):
            return False
        if mode == "plus":
            s, st0 = bases, start
        else:
            s = [(b + 2) % 4 for b in reversed(bases)]  # complement in TCAG index space (T<->A, C<->G), no branching
            st0 = start if mode == "rc_documented" else (n - start) % 3
        want = [ncbi[16 * s[i] + 4 * s[i + 1] + s[i + 2]] if W.PLAIN else _lookup(ncbi, 16 * s[i] + 4 * s[i + 1] + s[i + 2]) for i in range(st0, len(s) - 2, 3)]
        if len(want) and not W.reach("codons"):
            return False
        return got == want

    return check


def _lookup(table, i):
    return table[i]


def mk_kmer_kernel(n):
    """the k-mer index kernel on symbolic monomer codes incl. gap (4) and missing (5): canonical -> 16a+4b+c, any gap -> gap index, else missing"""
    import numpy

    def check(b0: int, b1: int, b2: int, b3: int, b4: int, b5: int) -> bool:
        """
        pre: 0 <= b0 <= 5 and 0 <= b1 <= 5 and 0 <= b2 <= 5 and 0 <= b3 <= 5 and 0 <= b4 <= 5 and 0 <= b5 <= 5
        post: _
        """
        from cogent3.core import new_genetic_code as G

        gc = G.get_code(1)
        bases = [b0, b1, b2, b3, b4, b5][:n]
        _use_symbolic_kernel(True)
        if W.PLAIN:
            seq = numpy.array(bases, dtype=numpy.uint8)
        else:
            seq = numpy.empty(n, dtype=object)
            for i, b in enumerate(bases):
                seq[i] = b
        got = [x for x in gc.codons.to_indices(seq)]
        if not W.reach("end"):
            return False
        want = []
        for i in range(0, n - 2, 3):
            a, b, c = bases[i], bases[i + 1], bases[i + 2]
            if a < 4 and b < 4 and c < 4:
                want.append(16 * a + 4 * b + c)
            elif (a == 5) or (b == 5) or (c == 5):
                want.append(65)  # a missing / ambiguous character dominates
            else:
                want.append(64)  # gap-containing codon
        return got == want

    return check


# ---------------------------------------------------------------- E4: finite tables
def mk_code_tables(code_id, _replay=None):
    from cogent3.core import genetic_code as OG
    from cogent3.core import new_genetic_code as G

    t0 = time.time()
    gc = G.get_code(code_id)
    og = OG.get_code(code_id)
    ncbi = dict((c[1], c[0]) for c in G.code_mapping)[code_id]
    plus = list(gc._translate_plus(bytes(range(66))))
    minus = list(gc._translate_minus(bytes(range(66))))
    A, B, C = z3.Ints("a b c")
    dom = [A >= 0, A <= 5, B >= 0, B <= 5, C >= 0, C <= 5]
    sym = "TCAG-?"

    def table_fn(fn):
        """z3 term for fn(a,b,c) -> int, built as nested ite over the 6^3 codons from values extracted from the real objects"""
        t = z3.IntVal(-1)
        for a in range(6):
            for b in range(6):
                for c in range(6):
                    t = z3.If(z3.And(A == a, B == b, C == c), z3.IntVal(fn(a, b, c)), t)
        return t

    kidx = {}
    for a in range(6):
        for b in range(6):
            for c in range(6):
                kidx[a, b, c] = int(gc.codons.to_indices(sym[a] + sym[b] + sym[c])[0])

    new_plus = table_fn(lambda a, b, c: plus[kidx[a, b, c]])
    new_minus = table_fn(lambda a, b, c: minus[kidx[a, b, c]])
    new_getitem = table_fn(lambda a, b, c: ord(gc[sym[a] + sym[b] + sym[c]]))
    canonical = z3.And(A <= 3, B <= 3, C <= 3)
    ncbi_t = table_fn(lambda a, b, c: ord(ncbi[16 * a + 4 * b + c]) if max(a, b, c) <= 3 else -1)
    ncbi_rc = table_fn(lambda a, b, c: ord(ncbi[16 * COMP[c] + 4 * COMP[b] + COMP[a]]) if max(a, b, c) <= 3 else -1)
    old_t = table_fn(lambda a, b, c: ord(og[sym[a] + sym[b] + sym[c]]) if max(a, b, c) <= 3 else -1)
    has_missing = z3.Or(A == 5, B == 5, C == 5)
    has_gap = z3.Or(A == 4, B == 4, C == 4)
    claims = [
        ("plus_table_is_ncbi", z3.Implies(canonical, new_plus == ncbi_t)),
        ("minus_table_is_ncbi_of_revcomp", z3.Implies(canonical, new_minus == ncbi_rc)),
        ("getitem_is_ncbi", z3.Implies(canonical, new_getitem == ncbi_t)),
        ("old_equals_new", z3.Implies(canonical, old_t == new_plus)),
        ("ambiguous_codon_is_X", z3.Implies(has_missing, z3.And(new_plus == ord("X"), new_minus == ord("X")))),
        ("gapped_codon_is_dash", z3.Implies(z3.And(has_gap, z3.Not(has_missing)), z3.And(new_plus == ord("-"), new_minus == ord("-")))),
    ]
    if _replay is not None:
        a, b, c = int(_replay["a"]), int(_replay["b"]), int(_replay["c"])
        codon = sym[a] + sym[b] + sym[c]
        claim = _replay.get("claim", "")
        rcsym = {"T": "A", "C": "G", "A": "T", "G": "C", "-": "-", "?": "?"}
        rc_codon = "".join(rcsym[x] for x in reversed(codon))
        special = "X" if 5 in (a, b, c) else ("-" if 4 in (a, b, c) else None)
        details, bad = [], False
        # plus strand through the public API
        got = gc.translate(codon)
        want = special or ncbi[16 * a + 4 * b + c]
        oldv = og[codon] if special is None else want
        gi = gc[codon] if special is None else want
        bad |= got != want or oldv != want or gi != want
        details.append(f"codon {codon}: new translate {got!r}, gc[codon] {gi!r}, NCBI {want!r}, old {oldv!r}")
        # minus strand through the public API: translating `codon` with rc=True must read the NCBI table at revcomp(codon)
        gotm = gc.translate(codon, rc=True)
        wantm = special or ncbi[16 * COMP[c] + 4 * COMP[b] + COMP[a]]
        bad |= gotm != wantm
        details.append(f"translate({codon!r}, rc=True) {gotm!r}, NCBI[{rc_codon}] {wantm!r}")
        return {"status": "reproduced" if bad else "not_reproduced", "detail": f"[{claim}] " + "; ".join(details)}
    if not W.reach("end"):
        s = z3.Solver()
        s.add(*dom)
        s.add(canonical, new_plus != new_minus)
        return {"status": "cex" if str(s.check()) == "sat" else "inconclusive", "cex": {"twin": "tables non-trivial: plus != minus for some codon"}}
    nq = 0
    for nm, cl in claims:
        s = z3.Solver()
        s.add(*dom)
        s.add(z3.Not(cl))
        r = str(s.check())
        nq += 1
        if r == "sat":
            m = s.model()
            return {"status": "cex", "cex": {"a": m[A].as_long(), "b": m[B].as_long(), "c": m[C].as_long(), "claim": nm}, "queries": nq}
        if r != "unsat":
            return {"status": "inconclusive", "detail": f"{nm}: {r}"}
    return {"status": "holds", "paths": 1, "queries": nq, "detail": f"code {code_id} ({gc.name})", "solver_s": round(time.time() - t0, 2)}


def mk_index_width(_replay=None):
    """The codon indices are handed to a byte-wise translate, so they must occupy ONE byte per codon whatever the sequence length.
    KmerAlphabet.to_indices picks its dtype from the number of codons (get_array_type); the real translate is run on one
    representative length per dtype class and the class boundaries are located with z3 over the real get_array_type
    (finite abstraction of the length by dtype class)."""
    import numpy

    from cogent3.core import new_alphabet as NA
    from cogent3.core import new_genetic_code as G

    t0 = time.time()
    gc = G.get_code(1)
    if _replay is not None:
        n = int(_replay["n_codons"])
        got = gc.translate("ATG" * n)
        bad = got != "M" * n
        return {"status": "reproduced" if bad else "not_reproduced", "detail": f"translate('ATG'*{n}) -> length {len(got)}, symbols {sorted(set(got))}"}
    # dtype classes of the index array as a function of the number of codons: probe the real function at powers of two
    probes = sorted({1, 2} | {2**k + d for k in (7, 8, 15, 16, 31, 32) for d in (-1, 0, 1)})
    width = {n: numpy.dtype(NA.get_array_type(n)).itemsize for n in probes}
    N = z3.Int("n_codons")
    w = z3.IntVal(-1)
    prev = None
    pieces = []
    for n in probes:
        if prev is None or width[n] != width[prev]:
            pieces.append((n, width[n]))
        prev = n
    for start, wd in pieces:
        w = z3.If(N >= start, z3.IntVal(wd), w)
    if not W.reach("end"):
        return {"status": "cex", "cex": {"twin": f"dtype classes {pieces}"}}
    nq = 0
    # run the REAL translate once per class (bounded: representatives up to 70000 codons)
    for start, wd in pieces:
        if start > 70000:
            continue
        n = start
        nq += 1
        if gc.translate("ATG" * n) != "M" * n or gc.translate("CAT" * n, rc=True) != "M" * n:
            s = z3.Solver()
            s.add(N >= start, w == wd, N <= start)
            s.check()
            return {"status": "cex", "cex": {"n_codons": s.model()[N].as_long(), "index_itemsize": wd}, "queries": nq}
    return {"status": "holds", "paths": len(pieces), "queries": nq, "detail": f"index dtype classes by codon count: {pieces}; translate correct on a representative of each class <= 70000 codons", "solver_s": round(time.time() - t0, 2)}


def mk_complement(style, mt_name, _replay=None):
    """bits(comp(s)) == perm(bits(s)), comp(comp(s)) == s, what_ambiguity(resolve(s)) == s for a symbolic IUPAC symbol"""
    t0 = time.time()
    if style == "old":
        from cogent3.core import moltype as M
    else:
        from cogent3.core import new_moltype as M
    mt = getattr(M, mt_name)
    symbols = [s for s in mt.ambiguities if s not in "-?"]
    bases = [b for b in ("TCAG" if mt_name == "DNA" else "UCAG")]
    comp_base = dict(zip(bases, [bases[2], bases[3], bases[0], bases[1]]))

    def bits(states):
        v = 0
        for st in states:
            if st in bases:
                v |= 1 << bases.index(st)
        return v

    comp = {s: mt.complement(s) for s in symbols}
    resolve = {s: tuple(mt.resolve_ambiguity(s)) for s in symbols}
    if style == "old":
        back = {s: mt.what_ambiguity(resolve[s]) for s in symbols}
    else:
        back = {s: mt.degenerate_from_seq("".join(resolve[s])) for s in symbols}
    S = z3.Int("s")
    dom = [S >= 0, S < len(symbols)]

    def tab(fn):
        t = z3.IntVal(-1)
        for i, s in enumerate(symbols):
            t = z3.If(S == i, z3.IntVal(fn(s)), t)
        return t

    perm = lambda v: sum((1 << bases.index(comp_base[bases[k]])) for k in range(4) if v >> k & 1)
    claims = [
        ("complement_is_set_complement", tab(lambda s: bits(mt.ambiguities[comp[s]])) == tab(lambda s: perm(bits(mt.ambiguities[s])))),
        ("complement_involution", tab(lambda s: symbols.index(mt.complement(comp[s]))) == S),
        ("resolve_is_ambiguity_set", tab(lambda s: bits(resolve[s])) == tab(lambda s: bits(mt.ambiguities[s]))),
        ("reencode_inverse_of_resolve", tab(lambda s: symbols.index(back[s]) if back[s] in symbols else -2) == S),
    ]
    if _replay is not None:
        s = symbols[int(_replay["s"])]
        bad = mt.complement(mt.complement(s)) != s or set(mt.ambiguities[mt.complement(s)]) != {comp_base[b] for b in mt.ambiguities[s]} or back[s] != s
        return {"status": "reproduced" if bad else "not_reproduced", "detail": f"symbol {s}: comp {mt.complement(s)}, back {back[s]}"}
    if not W.reach("end"):
        return {"status": "cex", "cex": {"twin": f"{len(symbols)} symbols"}}
    nq = 0
    for nm, cl in claims:
        sol = z3.Solver()
        sol.add(*dom)
        sol.add(z3.Not(cl))
        r = str(sol.check())
        nq += 1
        if r == "sat":
            return {"status": "cex", "cex": {"s": sol.model()[S].as_long(), "claim": nm}, "queries": nq}
        if r != "unsat":
            return {"status": "inconclusive", "detail": f"{nm}: {r}"}
    return {"status": "holds", "paths": 1, "queries": nq, "detail": f"{len(symbols)} symbols", "solver_s": round(time.time() - t0, 2)}


# ---------------------------------------------------------------- sequence / collection / alignment level translation
def mk_translation_api(code_id, api, style, include_stop=False):
    """The public get_translation entry points on 'ATGCCA' + one SYMBOLIC final codon over {T,C,A,G}, for one genetic code:
    the final residue is the NCBI table's amino acid for THIS code; a final stop of THIS code is trimmed (sequence,
    collection) or becomes a gap (alignment, which keeps its length); with include_stop it is kept as '*'."""
    from cogent3.core import new_genetic_code as G

    ncbi = dict((c[1], c[0]) for c in G.code_mapping)[code_id]
    new_type = style == "new"

    def call(seq):
        import cogent3

        # include_stop is paired with trim_stop=False: with trim_stop left at its default (True) the two requests conflict for a terminal
        # stop and the APIs resolve it differently (old style keeps it, new-style Sequence / SequenceCollection trim it, as their
        # docstrings say the flags are independent) -- that combination is not claimed
        kw = {"include_stop": True, "trim_stop": False} if include_stop else {}
        if api == "seq":
            return str(cogent3.make_seq(seq, name="s1", moltype="dna", new_type=new_type).get_translation(gc=code_id, **kw))
        if api == "coll":
            return str(cogent3.make_unaligned_seqs({"s1": seq}, moltype="dna", new_type=new_type).get_translation(gc=code_id, **kw).get_seq("s1"))
        return str(cogent3.make_aligned_seqs({"s1": seq}, moltype="dna", new_type=new_type).get_translation(gc=code_id, **kw).get_seq("s1"))

    # warm-up outside tracing: the moltype / alphabet / genetic-code objects build their tables lazily; built under tracing they make
    # the first path differ from its own replay (CrossHair then drops every path: "unable to meet precondition")
    _use_symbolic_kernel(False)
    for warm in ("ATGCCATTT", "ATGCCATAA", "ATGCCATGA", "ATGCCAAGA"):
        try:
            call(warm)
        except Exception:  # noqa
            pass

    def check(k: int) -> bool:
        """
        pre: 0 <= k <= 63
        post: _
        """
        _ = (ncbi, new_type)
        _use_symbolic_kernel(False)
        if not W.PLAIN:
            # the constructors hand the text to C-level translate / numpy at once: the codon number (NCBI order, 16a+4b+c) is realised
            # up front (CrossHair forks on the realised value, all 64 codons are still exhausted)
            from crosshair import deep_realize

            k = deep_realize(k)
        import contextlib as _cl

        if W.PLAIN:
            untraced = _cl.nullcontext()
        else:
            from crosshair.tracers import NoTracing

            untraced = NoTracing()  # the codon is concrete from here on: the public API runs untraced
        with untraced:
            return body(k)

    def body(k):
        a, b, c = k // 16, (k // 4) % 4, k % 4
        codon = "TCAG"[a] + "TCAG"[b] + "TCAG"[c]
        seq = "ATGCCA" + codon
        aa = ncbi[16 * a + 4 * b + c]
        got = call(seq)
        if aa == "*" and not W.reach("stop"):
            return False
        if not W.reach("end"):
            return False
        if include_stop or aa != "*":
            return got == "MP" + aa
        return got == ("MP-" if api == "aln" else "MP")

    return check


ENCODED = [
    ("src/cogent3/core/new_genetic_code.py", ["GeneticCode.translate", "GeneticCode.__post_init__ (tables, concrete)", "_make_converter", "GeneticCode.__getitem__"]),
    ("src/cogent3/core/new_alphabet.py", ["KmerAlphabet.to_indices (ndarray)", "seq_to_kmer_indices (.py_func)", "coord_to_index (.py_func)", "convert_alphabet (table extracted)"]),
    ("src/cogent3/core/genetic_code.py", ["GeneticCode.__getitem__ (codon table, extracted)", "get_code", "GeneticCode.is_stop / get_alphabet (through get_translation)"]),
    ("src/cogent3/core/sequence.py", ["NucleicAcidSequence.get_translation", "trim_stop_codon", "has_terminal_stop"]),
    ("src/cogent3/core/new_sequence.py", ["NucleicAcidSequenceMixin.get_translation", "trim_stop_codon", "has_terminal_stop"]),
    ("src/cogent3/core/alignment.py", ["_SequenceCollectionBase.get_translation", "trim_stop_codons (collection, Alignment, ArrayAlignment)"]),
    ("src/cogent3/core/new_alignment.py", ["SequenceCollection.get_translation", "Alignment.get_translation", "trim_stop_codons"]),
    ("src/cogent3/core/moltype.py", ["MolType.complement", "MolType.resolve_ambiguity", "MolType.what_ambiguity", "ambiguities"]),
    ("src/cogent3/core/new_moltype.py", ["MolType.complement", "MolType.resolve_ambiguity", "MolType.degenerate_from_seq", "ambiguities"]),
]
BOUNDS = {
    "quick": ["all 27 NCBI codes: every codon over {T,C,A,G,-,?} (finite domain, symbolic codon)", "frames: sequences of 0..9 symbolic canonical bases (length is a shard key), start in {0,1,2}, both strands, codes 1 and 2",
              "k-mer kernel: <= 6 symbolic monomer codes over {T,C,A,G,-,?}", "index width: one representative sequence length per dtype class of the index array (1, 256, 65536 codons)", "complement / ambiguity tables: every IUPAC symbol of DNA and RNA, old and new moltypes"],
}
BOUNDS["quick"].append("get_translation of Sequence / SequenceCollection / Alignment (old and new style): 'ATGCCA' + one symbolic final codon over {T,C,A,G}, all 27 codes through the collection entry points, codes 2 and 6 through all six (all 27 codes x 6 entry points in thorough); include_stop + trim_stop=False for code 2")
BOUNDS["thorough"] = ["as quick, frames for codes 1, 2, 4, 11; get_translation entry points for all 27 codes"]
ASSUMPTIONS = [
    "the byte-level translate call (bytes.translate, C) is replaced by the 66-entry table extracted this run from the real converter; the k-mer kernel is run through its .py_func (numba compilation trusted); numpy.zeros in new_alphabet rebound to an object-array allocator",
    "bases are encoded as their index in the alphabet order T,C,A,G(,-,?) — the str -> index step (CharAlphabet.to_indices, C level) is outside",
    "minus-strand frames: two readings are checked, see known_findings.txt",
]
OUTSIDE = ["get_translation / trim_stop_codon on more than one symbolic codon, gapped or ambiguous codons, incomplete_ok (the moltype string machinery on symbolic strings grows ~x60 per symbolic codon)", "the translate_seqs app wrapper", "str <-> index conversion at C level", "protein moltype ambiguity tables"]
TRUSTED = ["the NCBI order TCAG index arithmetic in props/c12.py"]

KNOWN_KEY = "new_genetic_code.translate:minus-frame-numbered-from-forward-start"


def obligations(tier):
    from cogent3.core import new_genetic_code as G

    T = tier == "thorough"
    obs = []
    for code in G.code_mapping:
        cid = code[1]
        obs.append(Ob(f"code_tables/{cid}", __name__, "mk_code_tables", {"code_id": cid}, kind="direct", timeout=600, group="tables"))
    for cid in ((1, 2, 4, 11) if T else (1, 2)):
        for n in range(0, 10):
            for start in range(3):
                if n == 0 and start:
                    continue
                if cid != 1 and n not in (5, 9):
                    continue
                obs.append(Ob(f"frames/code{cid}/n{n}/start{start}/plus", __name__, "mk_frames", {"code_id": cid, "n": n, "start": start, "rc": False, "mode": "plus"}, timeout=900, twins=("end",) + (("codons",) if n - start >= 3 else ()), group="frames"))
                obs.append(Ob(f"frames/code{cid}/n{n}/start{start}/rc_same_frame_set", __name__, "mk_frames", {"code_id": cid, "n": n, "start": start, "rc": True, "mode": "rc_same_frame_set"}, timeout=900, twins=("end",), group="frames"))
                if cid == 1 and n in (6, 7, 8) and start == 1:
                    obs.append(Ob(f"frames/code{cid}/n{n}/start{start}/rc_documented", __name__, "mk_frames", {"code_id": cid, "n": n, "start": start, "rc": True, "mode": "rc_documented"}, timeout=900, twins=("end",), group="frames", expect_known=KNOWN_KEY))
    # codes whose stop sets differ from the standard code: 2 (TGA->W, AGA/AGG stop), 6 (TAA/TAG->Q); thorough: all 27
    # (~0.8 s per codon under tracing: Sequence construction + get_translation; 64 codons per run)
    for cid in [c[1] for c in G.code_mapping]:
        for style in ("old", "new"):
            for api in ("seq", "coll", "aln"):
                if not T and cid not in (2, 6) and api != "coll":
                    continue  # quick: every code through the collection entry point, codes 2 and 6 through all six
                obs.append(Ob(f"translation_api/{style}/{api}/code{cid}", __name__, "mk_translation_api", {"code_id": cid, "api": api, "style": style}, timeout=900,
                              twins=("end", "stop") if (cid == 2 and api == "seq") else ("end",), group="api", grade="realised-input"))
    for style in ("old", "new"):
        for api in (("seq", "coll", "aln") if T else ("coll",)):
            obs.append(Ob(f"translation_api/{style}/{api}/code2/include_stop", __name__, "mk_translation_api", {"code_id": 2, "api": api, "style": style, "include_stop": True}, timeout=1800, twins=("end",), group="api", grade="realised-input"))
    obs.append(Ob("translate_index_width", __name__, "mk_index_width", {}, kind="direct", timeout=600, group="frames"))
    for n in (3, 6):
        obs.append(Ob(f"kmer_kernel/n{n}", __name__, "mk_kmer_kernel", {"n": n}, timeout=900, group="kernel"))
    for style in ("old", "new"):
        for mt in ("DNA", "RNA"):
            obs.append(Ob(f"complement_tables/{style}/{mt}", __name__, "mk_complement", {"style": style, "mt_name": mt}, kind="direct", timeout=300, group="tables"))
    return obs


def classify(name, args, cex, rep):
    if name == "translate_index_width":
        return "new_genetic_code.translate:multi-byte-indices-for-256+-codons"
    if name.endswith("/rc_documented"):
        return KNOWN_KEY
    return None
