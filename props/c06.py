"""C06 — (the streaming clause) every chunk size yields identical lines.

Engine E1 (CrossHair): the real util.io.iter_splitlines runs over an in-memory file with symbolic content and a
SYMBOLIC chunk size; the result must equal str.splitlines() of the whole content.
The writer -> parser round trips of the property are outside the reach of the solver (see OUTSIDE).
"""
from __future__ import annotations

from vlib import w as W
from vlib.core import Ob

PROPERTY_ID = "C06"
CLAIM = "for every file content within the bound and EVERY chunk size k >= 1 (unbounded integer), iter_splitlines yields exactly content.splitlines(): chunk boundaries inside a line, on a newline, or between CR and LF change nothing."


class _Stat:
    def __init__(self, n):
        self.st_size = n


class FakePath:
    def __init__(self, content):
        self.content = content

    def expanduser(self):
        return self

    def stat(self):
        return _Stat(len(self.content))

    def __str__(self):
        return "fake"


class FakeFile:
    def __init__(self, content):
        self.c = content
        self.pos = 0

    def read(self, n=None):
        if n is None:
            out = self.c[self.pos:]
            self.pos = len(self.c)
            return out
        out = self.c[self.pos : self.pos + n]
        self.pos = self.pos + len(out)
        return out

    def __enter__(self):
        return self

    def __exit__(self, *a):
        return False


def _install():
    import cogent3.util.io as IO

    IO.Path = lambda p: p
    IO.open_ = lambda p, *a, **kw: FakeFile(p.content)
    return IO


def mk(alphabet, maxlen):
    chars = {"ab": "ab\n", "crlf": "a\r\n"}[alphabet]

    def check(content: str, k: int) -> bool:
        """
        pre: len(content) <= maxlen and all(c in chars for c in content)
        pre: k >= 1
        post: _
        """
        _ = (maxlen, chars)
        if alphabet == "crlf":
            # well-formed text: a carriage return only occurs as part of CR LF
            for i in range(len(content)):
                if content[i] == "\r" and (i + 1 >= len(content) or content[i + 1] != "\n"):
                    return True
        if W.PLAIN:
            import os
            import tempfile

            import cogent3.util.io as IO

            d = tempfile.mkdtemp()
            p = os.path.join(d, "f.txt")
            with open(p, "w", newline="") as f:
                f.write(content)
            try:
                got = list(IO.iter_splitlines(p, chunk_size=k))
            finally:
                os.unlink(p)
                os.rmdir(d)
            return got == content.splitlines()
        IO = _install()
        got = list(IO.iter_splitlines(FakePath(content), chunk_size=k))
        if not W.reach("end"):
            return False
        if len(content) > k and not W.reach("chunked"):
            return False
        return got == content.splitlines()

    return check


ENCODED = [("src/cogent3/util/io.py", ["iter_splitlines"])]
BOUNDS = {
    "quick": ["content <= 4 characters over {a, b, LF} and over {a, CR, LF} with CR only as part of CR LF; chunk size k: unbounded symbolic integer >= 1"],
    "thorough": ["content <= 5 characters, same alphabets; chunk size unbounded"],
}
ASSUMPTIONS = [
    "the file is an in-memory stub behind Path / open_ / stat().st_size (rebound in cogent3.util.io); decoding and compression are outside",
    "plain replay of a counterexample writes a real temporary file and calls the unpatched function",
    "well-formed text: CR occurs only in CR LF pairs",
]
OUTSIDE = [
    "the larger part of the property: FASTA / PHYLIP / PAML / GDE / JSON write -> load round trips, agreement of the two FASTA parsers and of strict / non-strict modes, GenBank parsers, compression suffix handling, load_* front ends "
    "(textwrap / re / strip on symbolic strings keep CrossHair from exhausting even one record with a 2-character name; z3's string theory has no terminating encoding of these substitutions; probed)",
    "bare CR line endings", "contents longer than the bound",
]
TRUSTED = ["str.splitlines as the oracle"]


def obligations(tier):
    T = tier == "thorough"
    n = 5 if T else 4
    return [
        Ob(f"chunks/ab/len{n}", __name__, "mk", {"alphabet": "ab", "maxlen": n}, timeout=1800, twins=("end", "chunked"), group="chunks"),
        Ob(f"chunks/crlf/len{n}", __name__, "mk", {"alphabet": "crlf", "maxlen": n}, timeout=1800, twins=("end", "chunked"), group="chunks"),
        Ob("chunks/ab/len3", __name__, "mk", {"alphabet": "ab", "maxlen": 3}, timeout=900, twins=("end", "chunked"), group="chunks"),
    ]


def classify(name, args, cex, rep):
    return None
