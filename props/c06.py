"""C06 — sequence formats round-trip, the readers of a format agree, every chunk size yields identical lines.

Engine E1 (CrossHair).
 * streaming: the real util.io.iter_splitlines runs over an in-memory file with symbolic content and a SYMBOLIC chunk
   size; the result must equal str.splitlines() of the whole content.
 * round trips: the real writers (FORMATTERS: fasta, gde, phylip, paml) write two records whose NAMES are symbolic strings
   (or whose length and line width are symbolic integers) and every registered reader of the format (PARSERS, both
   MinimalFastaParser modes, the bytes-based and the line-based iter_fasta_records) must return the same names, order and
   sequences. Sequence CONTENT is concrete (textwrap / re on symbolic sequence text do not terminate; probed).
"""
from __future__ import annotations

from vlib import w as W
from vlib.core import Ob

PROPERTY_ID = "C06"
ENGINE = 'E1 CrossHair 0.0.110 (z3) on the real code'
TECHNIQUE = 'CrossHair symbolic execution of the real iter_splitlines (symbolic content, unbounded symbolic chunk size) and of the real format writers + every registered reader of the format with symbolic record names / symbolic sequence length and line width; all paths exhausted; counterexamples replayed through write() -> load_aligned_seqs on a real file'
CLAIM = ("for every file content within the bound and EVERY chunk size k >= 1 (unbounded integer), iter_splitlines yields exactly content.splitlines(): chunk boundaries inside a line, on a newline, or between CR and LF change nothing; "
         "for every pair of distinct record names within the bound (incl. names containing '>', '#', '%', '|', ';', inner blanks, and 9/10/11-character PHYLIP names) and for every sequence length / line width within the bound, "
         "what FORMATTERS[fasta|gde|phylip|paml] writes is read back by every reader of that format as the same names (PHYLIP: first 9 characters), order and sequences.")


class _Stat:
    def __init__(self, n):
        self.st_size = n


class FakePath:
    def __init__(self, content):
        self.content = content

    def expanduser(self):
        return self

    def stat(self):
        return _Stat(len(self.content))

    def __str__(self):
        return "fake"


class FakeFile:
    def __init__(self, content):
        self.c = content
        self.pos = 0

    def read(self, n=None):
        if n is None:
            out = self.c[self.pos:]
            self.pos = len(self.c)
            return out
        out = self.c[self.pos : self.pos + n]
        self.pos = self.pos + len(out)
        return out

    def __enter__(self):
        return self

    def __exit__(self, *a):
        return False


def _install():
    import cogent3.util.io as IO

    IO.Path = lambda p: p
    IO.open_ = lambda p, *a, **kw: FakeFile(p.content)
    return IO


def mk(alphabet, maxlen):
    chars = {"ab": "ab\n", "crlf": "a\r\n"}[alphabet]

    def check(content: str, k: int) -> bool:
        """
        pre: len(content) <= maxlen and all(c in chars for c in content)
        pre: k >= 1
        post: _
        """
        _ = (maxlen, chars)
        if alphabet == "crlf":
            # well-formed text: a carriage return only occurs as part of CR LF
            for i in range(len(content)):
                if content[i] == "\r" and (i + 1 >= len(content) or content[i + 1] != "\n"):
                    return True
        if W.PLAIN:
            import os
            import tempfile

            import cogent3.util.io as IO

            d = tempfile.mkdtemp()
            p = os.path.join(d, "f.txt")
            with open(p, "w", newline="") as f:
                f.write(content)
            try:
                got = list(IO.iter_splitlines(p, chunk_size=k))
            finally:
                os.unlink(p)
                os.rmdir(d)
            return got == content.splitlines()
        IO = _install()
        got = list(IO.iter_splitlines(FakePath(content), chunk_size=k))
        if not W.reach("end"):
            return False
        if len(content) > k and not W.reach("chunked"):
            return False
        return got == content.splitlines()

    return check


# ---------------------------------------------------------------- writer -> parser round trips, parser agreement
S1, S2 = "ACGTTGCAAGCT", "TTGACAGGCATC"  # two concrete aligned rows (content is not the subject; names and layout are)
ALPHABETS = {
    # characters that matter to the readers: record markers of FASTA / GDE, comment marker, field separators, blank
    "markers": "a>#% ",
    "wide": "aB1>#%|;_ ",
    "blank": "a ",  # inner blanks ('Genus species') need three characters
}


def _concrete(text):
    """the bytes-based reader is selected by functools.singledispatch on the exact type, and works at C level on the buffer:
    the written text is realised here (CrossHair forks on the value, so exhaustiveness over the bounded names is kept)"""
    if W.PLAIN:
        return text
    from crosshair import deep_realize

    return deep_realize(text)


def _parsers(fmt):
    from cogent3.parse import fasta as PF
    from cogent3.parse.sequence import PARSERS

    if fmt == "fasta":
        return [
            ("MinimalFastaParser(strict)", lambda text: PF.MinimalFastaParser(text.splitlines(), strict=True)),
            ("MinimalFastaParser(non-strict)", lambda text: PF.MinimalFastaParser(text.splitlines(), strict=False)),
            ("iter_fasta_records(bytes)", lambda text: PARSERS["fasta"](_concrete(text).encode("utf8"))),
            ("iter_fasta_records(lines)", lambda text: PARSERS["fasta"](text.splitlines())),
        ]
    if fmt == "gde":
        return [
            ("MinimalGdeParser(strict)", lambda text: PARSERS["gde"](text.splitlines())),
            ("MinimalGdeParser(non-strict)", lambda text: PARSERS["gde"](text.splitlines(), strict=False)),
        ]
    return [(f"PARSERS[{fmt}]", lambda text: PARSERS[fmt](text.splitlines()))]


def _public_roundtrip(fmt, names, seqs):
    """plain replay only: the public API with a real file (make_aligned_seqs(...).write -> load_aligned_seqs)"""
    import os
    import tempfile

    import cogent3

    d = tempfile.mkdtemp()
    p = os.path.join(d, f"f.{fmt}")
    try:
        aln = cogent3.make_aligned_seqs(dict(zip(names, seqs)), moltype="dna")
        aln.write(p)
        got = cogent3.load_aligned_seqs(p, moltype="dna")
        return list(got.names), [str(got.get_seq(n)) for n in got.names]
    finally:
        if os.path.exists(p):
            os.unlink(p)
        os.rmdir(d)


def _expected_name(fmt, name):
    if fmt == "phylip" and len(name) > 9:
        return name[:9]  # the writer's documented truncation (10-column name field, at least one blank)
    return name


def mk_names(fmt, maxlen, alpha, prefix="", two=False):
    """names are symbolic: FORMATTERS[fmt] writes two records, every registered reader of the format reads them back"""
    chars = ALPHABETS[alpha]

    def check(n1: str, n2: str) -> bool:
        """
        pre: 1 <= len(n1) <= maxlen and all(c in chars for c in n1)
        pre: (1 <= len(n2) <= maxlen and all(c in chars for c in n2)) if two else n2 == "zz"
        pre: n1 == n1.strip() and n2 == n2.strip()
        post: _
        """
        from cogent3.format.alignment import FORMATTERS

        _ = (maxlen, chars, two)
        a, b = prefix + n1, (prefix + n2 if two else n2)
        if _expected_name(fmt, a) == _expected_name(fmt, b):
            return True  # names must be distinct (after the documented truncation)
        if fmt == "phylip" and (" " in a[:10] or " " in b[:10]) and max(len(a), len(b)) > 9:
            return True  # truncation inside a name with blanks: what remains is format-defined, not claimed
        want = [(_expected_name(fmt, a), S1), (_expected_name(fmt, b), S2)]
        if W.PLAIN:
            names, seqs = _public_roundtrip(fmt, [a, b], [S1, S2])
            if list(zip(names, seqs)) != want:
                return False
        text = FORMATTERS[fmt]({a: S1, b: S2}, order=[a, b])
        for label, parse in _parsers(fmt):
            got = [(str(n), str(q)) for n, q in parse(text)]
            if got != want:
                return False
        return bool(W.reach("end"))

    return check


def mk_wrap(fmt, maxn, maxb, minb=1):
    """sequence length and line width are symbolic: lengths below, at and above multiples of the line width"""
    base1, base2 = S1 * 12, S2 * 12

    def check(n: int, b: int) -> bool:
        """
        pre: 1 <= n <= maxn
        pre: minb <= b <= maxb
        post: _
        """
        from cogent3.format.alignment import FORMATTERS

        _ = (maxn, maxb, minb)
        s1, s2 = base1[:n], base2[:n]
        want = [("seq_one", s1), ("s2", s2)]
        text = FORMATTERS[fmt]({"seq_one": s1, "s2": s2}, block_size=b, order=["seq_one", "s2"])
        for label, parse in _parsers(fmt):
            got = [(str(x), str(q)) for x, q in parse(text)]
            if got != want:
                return False
        if n > b and not W.reach("wrapped"):
            return False
        return bool(W.reach("end"))

    return check


ENCODED = [
    ("src/cogent3/util/io.py", ["iter_splitlines"]),
    ("src/cogent3/format/fasta.py", ["seqs_to_fasta"]),
    ("src/cogent3/format/gde.py", ["alignment_to_gde", "GDEFormatter.format"]),
    ("src/cogent3/format/phylip.py", ["alignment_to_phylip", "PhylipFormatter.format"]),
    ("src/cogent3/format/paml.py", ["alignment_to_paml", "PamlFormatter.format"]),
    ("src/cogent3/format/util.py", ["_AlignmentFormatter.set_align_info", "slice_string_in_blocks", "wrap_string_to_block_size"]),
    ("src/cogent3/parse/fasta.py", ["MinimalFastaParser", "_strict_parser", "_faster_parser", "iter_fasta_records (bytes, list)", "minimal_converter", "MinimalGdeParser"]),
    ("src/cogent3/parse/phylip.py", ["MinimalPhylipParser", "_get_header_info", "_split_line"]),
    ("src/cogent3/parse/paml.py", ["PamlParser"]),
    ("src/cogent3/parse/sequence.py", ["PARSERS", "LineBasedParser.__call__ (list)"]),
]
BOUNDS = {
    "quick": ["streaming: content <= 4 characters over {a, b, LF} and over {a, CR, LF} with CR only as part of CR LF; chunk size k: unbounded symbolic integer >= 1",
              "names: one symbolic name of 1..2 characters over {a, >, #, %, blank} and of 1..3 characters over {a, blank} (no leading / trailing blank) next to a fixed second record, per format; PHYLIP also 'abcdefgh' + 0..2 symbolic characters (lengths 8-10)",
              "layout: two 12-periodic rows of symbolic length 1..14 with symbolic line width 1..5, and of symbolic length 1..130 at the default width 60, per format (CrossHair realises both integers: one path per value pair)"],
    "thorough": ["streaming: content <= 5 characters", "names: 1..3 characters over the 5-character alphabet; 1..2 over {a,B,1,>,#,%,|,;,_,blank}; both names symbolic (1..2 characters); PHYLIP prefix 'abcdefg' + 0..3 and 'abcdefgh'+0..3",
                 "layout: length 1..40 x width 1..12"],
}
ASSUMPTIONS = [
    "the file is an in-memory stub behind Path / open_ / stat().st_size (rebound in cogent3.util.io); decoding and compression are outside",
    "plain replay of a counterexample writes a real temporary file and calls the unpatched function",
    "well-formed text: CR occurs only in CR LF pairs",
    "round trips: names are non-empty, distinct (PHYLIP: after truncation to 9), without leading / trailing blanks (all four formats strip the label line); sequence rows are two fixed DNA strings (or their prefixes); "
    "the readers get text.splitlines() (line-based) or the encoded bytes (iter_fasta_records): that iter_splitlines(file) equals splitlines is the streaming obligation; file I/O, compression and load_* front ends are exercised only in the plain replay of a counterexample (make_aligned_seqs(...).write -> load_aligned_seqs on a real temporary file)",
    "PHYLIP names longer than 9 characters that contain blanks are excluded (what survives truncation + strip is format-defined)",
    "the bytes-based FASTA reader dispatches on the exact type and works on the C buffer: the written text is realised before it (CrossHair forks on the realised value, so the bounded name space is still exhausted)",
]
OUTSIDE = [
    "symbolic sequence CONTENT through the writers / readers (textwrap / re on symbolic text keep CrossHair from exhausting even 2 characters; z3's string theory has no terminating encoding of these substitutions; probed)",
    "JSON round trips, GenBank / Clustal / Nexus / MSF / XMFA readers, compression suffix handling, load_* front ends (C-level I/O; only in plain replay)",
    "names longer than the bound, names with leading / trailing blanks, non-ASCII names",
    "bare CR line endings", "contents longer than the bound",
]
TRUSTED = ["str.splitlines as the oracle"]


def obligations(tier):
    T = tier == "thorough"
    n = 5 if T else 4
    obs = []
    for fmt in ("fasta", "gde", "phylip", "paml"):
        obs.append(Ob(f"names/{fmt}/len2/markers", __name__, "mk_names", {"fmt": fmt, "maxlen": 2, "alpha": "markers"}, timeout=1800, group="names"))
        obs.append(Ob(f"names/{fmt}/len3/blank", __name__, "mk_names", {"fmt": fmt, "maxlen": 3, "alpha": "blank"}, timeout=1800, group="names"))
        obs.append(Ob(f"wrap/{fmt}/n14/b1-5", __name__, "mk_wrap", {"fmt": fmt, "maxn": 14, "maxb": 5}, timeout=1800, twins=("end", "wrapped"), group="wrap", grade="realised-input"))
        obs.append(Ob(f"wrap/{fmt}/n130/b60", __name__, "mk_wrap", {"fmt": fmt, "maxn": 130, "maxb": 60, "minb": 60}, timeout=1800, twins=("end", "wrapped"), group="wrap", grade="realised-input"))
        if T:
            obs.append(Ob(f"names/{fmt}/len3/markers", __name__, "mk_names", {"fmt": fmt, "maxlen": 3, "alpha": "markers"}, timeout=3600, group="names"))
            obs.append(Ob(f"names/{fmt}/len2/wide", __name__, "mk_names", {"fmt": fmt, "maxlen": 2, "alpha": "wide"}, timeout=3600, group="names"))
            obs.append(Ob(f"names/{fmt}/two/len2/markers", __name__, "mk_names", {"fmt": fmt, "maxlen": 2, "alpha": "markers", "two": True}, timeout=7200, group="names"))
            obs.append(Ob(f"wrap/{fmt}/n40/b1-12", __name__, "mk_wrap", {"fmt": fmt, "maxn": 40, "maxb": 12}, timeout=3600, twins=("end", "wrapped"), group="wrap", grade="realised-input"))
    obs.append(Ob("names/phylip/prefix8/len2", __name__, "mk_names", {"fmt": "phylip", "maxlen": 2, "alpha": "markers", "prefix": "abcdefgh"}, timeout=1800, group="names"))
    if T:
        obs.append(Ob("names/phylip/prefix7/len3", __name__, "mk_names", {"fmt": "phylip", "maxlen": 3, "alpha": "markers", "prefix": "abcdefg"}, timeout=3600, group="names"))
        obs.append(Ob("names/phylip/prefix8/len3", __name__, "mk_names", {"fmt": "phylip", "maxlen": 3, "alpha": "markers", "prefix": "abcdefgh"}, timeout=3600, group="names"))
    return obs + [
        Ob(f"chunks/ab/len{n}", __name__, "mk", {"alphabet": "ab", "maxlen": n}, timeout=1800, twins=("end", "chunked"), group="chunks"),
        Ob(f"chunks/crlf/len{n}", __name__, "mk", {"alphabet": "crlf", "maxlen": n}, timeout=1800, twins=("end", "chunked"), group="chunks"),
        Ob("chunks/ab/len3", __name__, "mk", {"alphabet": "ab", "maxlen": 3}, timeout=900, twins=("end", "chunked"), group="chunks"),
    ]


def classify(name, args, cex, rep):
    if name.startswith("names/fasta"):
        return "iter_fasta_records:label-containing->"
    return None
