"""C10 (part 2) - whole collections / alignments through to_rich_dict -> JSON -> deserialise_object, in the state a history left them.

Own module (no module-global rebinding): the objects are built through the public constructors. CrossHair explores a symbolic
2 x 3 content (one mixed-radix integer, realised up front: the classes push characters through numpy / JSON at once) and
symbolic slice bounds.
"""
from __future__ import annotations

from vlib import w as W

_ROW_A, _ROW_B = "AC-N", "G-"
KINDS = ("Alignment", "ArrayAlignment", "SequenceCollection")
HISTORIES = ("none", "slice", "rc", "take_seqs", "slice_rc")


def mk_object(kind, history, nsym=2):
    NA, NB = len(_ROW_A), len(_ROW_B)
    uses_slice = history in ("slice", "slice_rc")
    TOTAL = NA**nsym * NB * (6 if uses_slice else 1)
    SLICES = [(i, j) for i in range(3) for j in range(i + 1, 4)]

    NBLOCKS = W.nblocks(TOTAL)

    def check(code: int) -> bool:
        """
        pre: 0 <= code < TOTAL
        post: _
        """
        import json

        import cogent3
        from cogent3.util.deserialise import deserialise_object

        _ = TOTAL
        code, untraced = W.concrete(code)
        with untraced:
            return body(code)

    def body(code):
        import json

        import cogent3
        from cogent3.util.deserialise import deserialise_object

        ra = ""
        for _i in range(nsym):
            ra += _ROW_A[code % NA]
            code //= NA
        ra += "A" * (3 - nsym)
        rb = _ROW_B[code % NB] + "GG"
        code //= NB
        i, j = SLICES[code % 6]
        if kind == "SequenceCollection":
            if set(ra) <= set("-") or set(rb) <= set("-"):
                return True
            obj = cogent3.make_unaligned_seqs({"a": ra.replace("-", ""), "b": rb.replace("-", "")}, moltype="dna")
        else:
            obj = cogent3.make_aligned_seqs({"a": ra, "b": rb}, moltype="dna", array_align=(kind == "ArrayAlignment"))
        x = obj
        if uses_slice:
            if kind == "SequenceCollection":
                return True
            x = x[i:j]
        if history in ("rc", "slice_rc"):
            x = x.rc()
        if history == "take_seqs":
            x = x.take_seqs(["b"])
        if not W.reach("end"):
            return False
        d = json.loads(json.dumps(x.to_rich_dict()))
        r = deserialise_object(d)
        if type(r).__name__ != type(x).__name__ or list(r.names) != list(x.names) or r.moltype.label != x.moltype.label:
            return False
        want = {n: str(s) for n, s in x.to_dict().items()}
        got = {n: str(s) for n, s in r.to_dict().items()}
        if got != want:
            return False
        # and a second generation is the same again (nothing state-dependent was lost)
        r2 = deserialise_object(json.loads(json.dumps(r.to_rich_dict())))
        return {n: str(s) for n, s in r2.to_dict().items()} == want

    return check


TABLE_HISTORIES = ("none", "sorted", "columns", "filtered", "appended")


def mk_table_object(history):
    """a 3-row table with symbolic small-integer cells (and an empty cell), after a row-model operation, through JSON and back"""
    TOTAL = 3**2 * 2**3  # x of the third row is fixed (1): ties with either of the other rows still occur

    NBLOCKS = W.nblocks(TOTAL)

    def check(code: int) -> bool:
        """
        pre: 0 <= code < TOTAL
        post: _
        """
        import json

        from cogent3 import make_table
        from cogent3.util.deserialise import deserialise_object

        _ = TOTAL
        code, untraced = W.concrete(code)
        with untraced:
            return body(code)

    def body(code):
        import json

        from cogent3 import make_table
        from cogent3.util.deserialise import deserialise_object

        xs, ys = [], []
        for _i in range(2):
            xs.append(code % 3)
            code //= 3
        xs.append(1)
        for _i in range(3):
            ys.append(code % 2)
            code //= 2
        rows = [[f"r{k}", xs[k], 0.5 * ys[k]] for k in range(3)]
        t = make_table(header=["id", "x", "y"], data=[list(r) for r in rows], title="T", legend="L")
        if history == "sorted":
            t = t.sorted(columns=["x", "y"])
        elif history == "columns":
            t = t.get_columns(["y", "id"])
        elif history == "filtered":
            t = t.filtered(lambda v: v >= 1, columns="x")
        elif history == "appended":
            t = t.appended(None, make_table(header=["id", "x", "y"], data=[["r9", xs[0], 0.5]]))
        if not W.reach("end"):
            return False
        r = deserialise_object(json.loads(json.dumps(t.to_rich_dict())))
        same = type(r).__name__ == "Table" and list(r.header) == list(t.header) and [list(x) for x in r.to_list()] == [list(x) for x in t.to_list()]
        return same and r.title == t.title and r.legend == t.legend

    return check


def mk_dictarray_object(kind):
    """DictArray / DistanceMatrix with symbolic small-integer cells through JSON and back"""
    TOTAL = 3**3

    NBLOCKS = W.nblocks(TOTAL)

    def check(code: int) -> bool:
        """
        pre: 0 <= code < TOTAL
        post: _
        """
        import json

        from cogent3.util.deserialise import deserialise_object

        _ = TOTAL
        code, untraced = W.concrete(code)
        with untraced:
            return body(code)

    def body(code):
        import json

        from cogent3.util.deserialise import deserialise_object

        v = []
        for _i in range(3):
            v.append(code % 3)
            code //= 3
        if kind == "DictArray":
            from cogent3.util.dict_array import DictArrayTemplate

            obj = DictArrayTemplate(["a", "b"], ["x", "y", "z"]).wrap([[v[0], v[1], v[2]], [v[2], v[0], v[1]]])
        else:
            from cogent3.evolve.fast_distance import DistanceMatrix

            obj = DistanceMatrix({("a", "b"): v[0] + 0.5, ("a", "c"): v[1] + 0.5, ("b", "c"): v[2] + 0.5})
        if not W.reach("end"):
            return False
        r = deserialise_object(json.loads(json.dumps(obj.to_rich_dict())))
        return type(r).__name__ == type(obj).__name__ and r.to_dict() == obj.to_dict()

    return check
