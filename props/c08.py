"""C08 — gapped-coordinate maps agree with the gapped string they describe.

Engine E1 (CrossHair). The real IndelMap / FeatureMap code runs on numpy *object* arrays that
hold symbolic ints; every obligation compares the result with a direct reading of the gap runs
(`ref`) at a free symbolic column.
"""
from __future__ import annotations

from typing import Optional

import numpy

import cogent3.core.location as L
from vlib import w as W
from vlib.core import Ob

PROPERTY_ID = "C08"
ENGINE = 'E1 CrossHair 0.0.110 (z3) on the real code'
TECHNIQUE = 'CrossHair symbolic execution of the real IndelMap / FeatureMap / Span operations on object-dtype arrays of symbolic integers (unbounded coordinates, <= 3 gap runs), compared position by position with the gapped-string reading; all paths exhausted'
CLAIM = "IndelMap/FeatureMap operations equal the gapped-string reading for every gap layout with <= G runs and unbounded integer coordinates."

_GAP_DT = L._DEFAULT_GAP_DTYPE  # the code's own machine dtype (used in plain replay)


def setup_symbolic():
    """Module-global rebinding so symbolic ints survive numpy (see DESIGN.md section 1)."""
    L._DEFAULT_GAP_DTYPE = object
    L.LostSpan = L._LostSpan  # memo cache keyed on symbolic values -> nondeterminism
    d = L.spans_to_gap_coords.__defaults__
    L.spans_to_gap_coords.__defaults__ = tuple(object if x is _GAP_DT else x for x in d)


# ------------------------------------------------------------------ reference model
def ref(gp, cl, ai):
    """(is_gap, seq index) of alignment column ai, read straight from the gap runs.
    For a gap column the seq index is the insertion position."""
    prev = 0
    for p, c in zip(gp, cl):
        gs = p + prev
        ge = p + c
        if ai < gs:
            return False, ai - prev
        if ai < ge:
            return True, p
        prev = c
    return False, ai - prev


def wf(gp, cl, plen, strict=True):
    prevp, prevc = -1, 0
    for p, c in zip(gp, cl):
        if strict:
            if not (p > prevp):
                return False
        elif not (p >= prevp):
            return False
        if not (c > prevc):
            return False
        prevp, prevc = p, c
    if len(gp) and (gp[0] < 0 or gp[-1] > plen):
        return False
    return plen >= 0


def cum(gl):
    out, t = [], 0
    for x in gl:
        t = t + x
        out.append(t)
    return out


def mkmap(gp, gl, plen):
    return L.IndelMap(
        gap_pos=W.arr(gp, _GAP_DT), cum_gap_lengths=W.arr(cum(gl), _GAP_DT), parent_length=plen
    )


def layout(G, p0, p1, p2, l0, l1, l2, tail):
    gp = [p0, p1, p2][:G]
    gl = [l0, l1, l2][:G]
    plen = (gp[-1] if G else 0) + tail
    return gp, gl, plen


def pre_layout(G, p0, p1, p2, l0, l1, l2, tail):
    gp, gl, plen = layout(G, p0, p1, p2, l0, l1, l2, tail)
    prev = -1
    for p in gp:
        if not p > prev:
            return False
        prev = p
    for x in gl:
        if not x > 0:
            return False
    return tail >= 0


def ilist(a):
    return [x for x in a]


# ------------------------------------------------------------------ IndelMap harnesses
def mk_len_index(G):
    def check(p0: int, p1: int, p2: int, l0: int, l1: int, l2: int, tail: int, ai: int) -> bool:
        """
        pre: pre_layout(G, p0, p1, p2, l0, l1, l2, tail)
        post: _
        """
        gp, gl, plen = layout(G, p0, p1, p2, l0, l1, l2, tail)
        cl = cum(gl)
        alen = plen + (cl[-1] if G else 0)
        m = mkmap(gp, gl, plen)
        if len(m) != alen:
            return False
        if not (-alen <= ai <= alen):
            return True
        got = m.get_seq_index(ai)
        aa = ai if ai >= 0 else ai + alen
        g, s = ref(gp, cl, aa)
        if not W.reach("end"):
            return False
        if g and not W.reach("gapcol"):
            return False
        return got == s

    return check


def mk_align_index(G, slice_stop):
    def check(p0: int, p1: int, p2: int, l0: int, l1: int, l2: int, tail: int, si: int) -> bool:
        """
        pre: pre_layout(G, p0, p1, p2, l0, l1, l2, tail)
        post: _
        """
        gp, gl, plen = layout(G, p0, p1, p2, l0, l1, l2, tail)
        cl = cum(gl)
        m = mkmap(gp, gl, plen)
        if not (-plen <= si < plen):
            return True
        ss = si if si >= 0 else si + plen
        got = m.get_align_index(si, slice_stop=slice_stop)
        # oracle: number of gap characters strictly before residue ss
        # (a gap inserted *at* position p precedes residue p)
        before = 0
        hit = None
        for k in range(G):
            if gp[k] <= ss:
                before = cl[k]
            if gp[k] == ss:
                hit = k
        if not W.reach("end"):
            return False
        if slice_stop and hit is not None:
            if not W.reach("hit"):
                return False
            # first alignment column of the gap run inserted at ss
            prev = cl[hit - 1] if hit else 0
            return got == ss + prev
        if got != ss + before:
            return False
        # round trip on a non-gap column
        g, s = ref(gp, cl, got)
        return (not g) and s == ss and m.get_seq_index(got) == ss

    return check


def mk_slice(G, neg):
    def check(p0: int, p1: int, p2: int, l0: int, l1: int, l2: int, tail: int, a: Optional[int], b: Optional[int], j: int) -> bool:
        """
        pre: pre_layout(G, p0, p1, p2, l0, l1, l2, tail)
        pre: j >= 0
        post: _
        """
        gp, gl, plen = layout(G, p0, p1, p2, l0, l1, l2, tail)
        cl = cum(gl)
        alen = plen + (cl[-1] if G else 0)
        # the documented domain: interval inside the alignment; negatives count from the end
        if neg:
            aa = 0 if a is None else (a if a >= 0 else a + alen)
            bb = alen if b is None else (b if b >= 0 else b + alen)
        else:
            if a is None or b is None or a < 0 or b < 0:
                return True
            aa, bb = a, b
        if not (0 <= aa <= alen and 0 <= bb <= alen):
            return True
        m = mkmap(gp, gl, plen)
        r = m[a:b]
        rgp = ilist(r.gap_pos)
        rcl = ilist(r.cum_gap_lengths)
        if not W.reach("end"):
            return False
        if not wf(rgp, rcl, r.parent_length):
            return False
        want = bb - aa if bb > aa else 0
        if len(r) != want:
            return False
        if j >= want:
            return True
        if not W.reach("inside"):
            return False
        g0, s0 = ref(gp, cl, aa)
        g1, s1 = ref(gp, cl, aa + j)
        g2, s2 = ref(rgp, rcl, j)
        if g1 != g2:
            return False
        if s2 != s1 - s0:
            return False
        # parent length = residues inside the interval
        ge, se = ref(gp, cl, bb)
        return r.parent_length == se - s0

    return check


_INT_GETITEM = L.IndelMap.__dict__['__getitem__'].dispatcher.dispatch(int)  # the registered int implementation


def mk_int_item(G):
    def check(p0: int, p1: int, p2: int, l0: int, l1: int, l2: int, tail: int, i: int) -> bool:
        """
        pre: pre_layout(G, p0, p1, p2, l0, l1, l2, tail)
        post: _
        """
        gp, gl, plen = layout(G, p0, p1, p2, l0, l1, l2, tail)
        cl = cum(gl)
        alen = plen + (cl[-1] if G else 0)
        if not (0 <= i < alen):
            return True
        m = mkmap(gp, gl, plen)
        r = _INT_GETITEM(m, i)
        if not W.reach("end"):
            return False
        g, s = ref(gp, cl, i)
        if len(r) != 1:
            return False
        if g:
            return r.parent_length == 0 and r.num_gaps == 1 and r.gap_pos[0] == 0 and r.cum_gap_lengths[0] == 1
        return r.parent_length == 1 and r.num_gaps == 0

    return check


def mk_reversed(G):
    def check(p0: int, p1: int, p2: int, l0: int, l1: int, l2: int, tail: int, j: int) -> bool:
        """
        pre: pre_layout(G, p0, p1, p2, l0, l1, l2, tail)
        pre: j >= 0
        post: _
        """
        gp, gl, plen = layout(G, p0, p1, p2, l0, l1, l2, tail)
        cl = cum(gl)
        alen = plen + (cl[-1] if G else 0)
        m = mkmap(gp, gl, plen)
        r = m.nucleic_reversed()
        rgp, rcl = ilist(r.gap_pos), ilist(r.cum_gap_lengths)
        if not W.reach("end"):
            return False
        if not wf(rgp, rcl, r.parent_length) or r.parent_length != plen or len(r) != alen:
            return False
        if j >= alen:
            return True
        g1, s1 = ref(gp, cl, alen - 1 - j)
        g2, s2 = ref(rgp, rcl, j)
        if g1 != g2:
            return False
        if g1:
            return s2 == plen - s1
        return s2 == plen - 1 - s1

    return check


def mk_mul(G, K):
    def check(p0: int, p1: int, p2: int, l0: int, l1: int, l2: int, tail: int, j: int) -> bool:
        """
        pre: pre_layout(G, p0, p1, p2, l0, l1, l2, tail)
        pre: j >= 0
        post: _
        """
        gp, gl, plen = layout(G, p0, p1, p2, l0, l1, l2, tail)
        cl = cum(gl)
        alen = plen + (cl[-1] if G else 0)
        m = mkmap(gp, gl, plen)
        r = m * K
        rgp, rcl = ilist(r.gap_pos), ilist(r.cum_gap_lengths)
        if not W.reach("end"):
            return False
        if not wf(rgp, rcl, r.parent_length) or r.parent_length != plen * K or len(r) != alen * K:
            return False
        if j >= alen * K:
            return True
        g1, s1 = ref(gp, cl, j // K)
        g2, s2 = ref(rgp, rcl, j)
        if g1 != g2:
            return False
        if g1:
            return s2 == s1 * K
        return s2 == s1 * K + j % K

    return check


def _spans_reading(spans):
    """turn a span list into [(is_gap, start, end)] and check contiguity in span order"""
    out = []
    for s in spans:
        if s.lost:
            out.append((True, None, len(s)))
        else:
            out.append((False, s.start, s.end))
    return out


def oracle_spans(gp, gl, plen):
    """spans of the gapped string: ungapped segments (non-empty) and gap runs in order"""
    out = []
    last = 0
    for p, l in zip(gp, gl):
        if p > last:
            out.append((False, last, p))
        out.append((True, None, l))
        last = p
    if plen > last or not gp:
        out.append((False, last, plen))
    return out


def mk_spans(G):
    def check(p0: int, p1: int, p2: int, l0: int, l1: int, l2: int, tail: int) -> bool:
        """
        pre: pre_layout(G, p0, p1, p2, l0, l1, l2, tail)
        post: _
        """
        gp, gl, plen = layout(G, p0, p1, p2, l0, l1, l2, tail)
        cl = cum(gl)
        m = mkmap(gp, gl, plen)
        got = _spans_reading(list(m.spans))
        want = oracle_spans(gp, gl, plen)
        if not W.reach("end"):
            return False
        if got != want:
            return False
        # ungapped segments in sequence coordinates
        coords = [(a, b) for a, b in m.get_coordinates()]
        wantc = [(a, b) for g, a, b in want if not g]
        if not wantc or (G == 1 and gp[0] == 0):
            wantc = [(0, plen)]
        if coords != wantc:
            return False
        # ungapped segments in alignment coordinates
        ng = [(s.start, s.end) for s in m.nongap()]
        wantn = []
        off = 0
        for g, a, b in want:
            if g:
                off = off + b
            elif b > a:
                wantn.append((a + off, b + off))
        if ng != wantn:
            return False
        # gap runs
        gc = [(a, b) for a, b in m.get_gap_coordinates()]
        if gc != list(zip(gp, gl)):
            return False
        gac = [(a, b) for a, b in m.get_gap_align_coordinates()]
        wanta = []
        prev = 0
        for p, c in zip(gp, cl):
            wanta.append((p + prev, p + c))
            prev = c
        if gac != wanta:
            return False
        return ilist(m.get_gap_lengths()) == gl

    return check


def mk_add(G1, G2):
    def check(p0: int, p1: int, l0: int, l1: int, tail: int, q0: int, q1: int, k0: int, k1: int, tail2: int, j: int) -> bool:
        """
        pre: pre_layout(G1, p0, p1, 0, l0, l1, 0, tail)
        pre: pre_layout(G2, q0, q1, 0, k0, k1, 0, tail2)
        pre: j >= 0
        post: _
        """
        gp, gl, plen = layout(G1, p0, p1, 0, l0, l1, 0, tail)
        hp, hl, qlen = layout(G2, q0, q1, 0, k0, k1, 0, tail2)
        cl, dl = cum(gl), cum(hl)
        alen1 = plen + (cl[-1] if G1 else 0)
        alen2 = qlen + (dl[-1] if G2 else 0)
        m = mkmap(gp, gl, plen) + mkmap(hp, hl, qlen)
        rgp, rcl = ilist(m.gap_pos), ilist(m.cum_gap_lengths)
        if not W.reach("end"):
            return False
        if m.parent_length != plen + qlen or len(m) != alen1 + alen2:
            return False
        if not wf(rgp, rcl, m.parent_length):
            return False
        if j >= alen1 + alen2:
            return True
        got = ref(rgp, rcl, j)
        if j < alen1:
            want = ref(gp, cl, j)
        else:
            g, s = ref(hp, dl, j - alen1)
            want = (g, s + plen)
        if got != want:
            return False
        # the public conversion must agree too
        return m.get_seq_index(j) == want[1]

    return check


def mk_add_canonical(G1, G2):
    """gap runs reported for a concatenation are the runs of the concatenated string"""

    def check(p0: int, p1: int, l0: int, l1: int, tail: int, q0: int, q1: int, k0: int, k1: int, tail2: int) -> bool:
        """
        pre: pre_layout(G1, p0, p1, 0, l0, l1, 0, tail)
        pre: pre_layout(G2, q0, q1, 0, k0, k1, 0, tail2)
        post: _
        """
        gp, gl, plen = layout(G1, p0, p1, 0, l0, l1, 0, tail)
        hp, hl, qlen = layout(G2, q0, q1, 0, k0, k1, 0, tail2)
        m = mkmap(gp, gl, plen) + mkmap(hp, hl, qlen)
        if not W.reach("end"):
            return False
        return wf(ilist(m.gap_pos), ilist(m.cum_gap_lengths), m.parent_length, strict=True)

    return check


def mk_from_segments(K):
    """from_aligned_segments: K ungapped segments in alignment coordinates"""

    def check(s0: int, e0: int, s1: int, e1: int, s2: int, e2: int, alen: int, j: int) -> bool:
        """
        pre: 0 <= s0 < e0 < s1 < e1 < s2 < e2
        pre: alen >= 0 and j >= 0
        post: _
        """
        segs = [(s0, e0), (s1, e1), (s2, e2)][:K]
        if K and segs[-1][1] > alen:
            return True
        m = L.IndelMap.from_aligned_segments(segs, alen)
        rgp, rcl = ilist(m.gap_pos), ilist(m.cum_gap_lengths)
        if not W.reach("end"):
            return False
        if K == 0:
            return m.num_gaps == 0 and m.parent_length == alen
        if not wf(rgp, rcl, m.parent_length):
            return False
        nres = 0
        for a, b in segs:
            nres = nres + (b - a)
        if m.parent_length != nres or len(m) != alen:
            return False
        if j >= alen:
            return True
        # oracle: column j is a residue iff inside a segment; its index = residues before it
        isres, idx = False, 0
        for a, b in segs:
            if j >= b:
                idx = idx + (b - a)
            elif j >= a:
                isres = True
                idx = idx + (j - a)
        g, s = ref(rgp, rcl, j)
        return g == (not isres) and s == idx

    return check


def mk_gap_coords_to_map(G, PMAX=6):
    def check(p0: int, p1: int, p2: int, l0: int, l1: int, l2: int, tail: int, j: int) -> bool:
        """
        pre: pre_layout(G, p0, p1, p2, l0, l1, l2, tail)
        pre: j >= 0
        pre: (p2 if G == 3 else p1 if G == 2 else p0 if G == 1 else 0) + tail <= PMAX
        post: _
        """
        _ = PMAX  # keep in closure for the precondition
        gp, gl, plen = layout(G, p0, p1, p2, l0, l1, l2, tail)
        d = {}
        # insertion order deliberately reversed: the function must sort
        for p, l in reversed(list(zip(gp, gl))):
            d[p] = l
        m = L.gap_coords_to_map(d, plen)
        if not W.reach("end"):
            return False
        return ilist(m.gap_pos) == gp and ilist(m.cum_gap_lengths) == cum(gl) and m.parent_length == plen

    return check


def mk_joined(G, PMAX=6):
    """joined_segments([(a,b),(c,d)]) == map of string[a:b] + string[c:d]"""

    def check(p0: int, p1: int, l0: int, l1: int, tail: int, a: int, b: int, c: int, d: int, j: int) -> bool:
        """
        pre: pre_layout(G, p0, p1, 0, l0, l1, 0, tail)
        pre: 0 <= a < b <= c < d
        pre: j >= 0
        pre: (p1 if G == 2 else p0 if G == 1 else 0) + tail <= PMAX
        post: _
        """
        _ = PMAX  # keep in closure for the precondition
        gp, gl, plen = layout(G, p0, p1, 0, l0, l1, 0, tail)
        cl = cum(gl)
        alen = plen + (cl[-1] if G else 0)
        if d > alen:
            return True
        m = mkmap(gp, gl, plen)
        r = m.joined_segments([(a, b), (c, d)])
        rgp, rcl = ilist(r.gap_pos), ilist(r.cum_gap_lengths)
        if not W.reach("end"):
            return False
        if not wf(rgp, rcl, r.parent_length):
            return False
        n1 = b - a
        if len(r) != n1 + (d - c):
            return False
        if j >= len(r):
            return True
        src = a + j if j < n1 else c + (j - n1)
        g1, s1 = ref(gp, cl, src)
        g2, s2 = ref(rgp, rcl, j)
        if g1 != g2:
            return False
        # residues retained before column j
        _, sa = ref(gp, cl, a)
        _, sb = ref(gp, cl, b)
        _, sc = ref(gp, cl, c)
        if j < n1:
            return s2 == s1 - sa
        return s2 == (sb - sa) + (s1 - sc)

    return check


def mk_merge(G1, G2):
    """merge_maps: gaps of two maps over the SAME sequence are combined (lengths add at equal positions)"""

    def check(p0: int, p1: int, l0: int, l1: int, q0: int, q1: int, k0: int, k1: int, plen: int, x: int) -> bool:
        """
        pre: pre_layout(G1, p0, p1, 0, l0, l1, 0, 0)
        pre: pre_layout(G2, q0, q1, 0, k0, k1, 0, 0)
        pre: plen >= 0 and x >= 0
        post: _
        """
        gp, gl, _ = layout(G1, p0, p1, 0, l0, l1, 0, 0)
        hp, hl, _ = layout(G2, q0, q1, 0, k0, k1, 0, 0)
        if (G1 and gp[-1] > plen) or (G2 and hp[-1] > plen):
            return True
        m = mkmap(gp, gl, plen).merge_maps(mkmap(hp, hl, plen))
        rgp, rcl = ilist(m.gap_pos), ilist(m.cum_gap_lengths)
        if not W.reach("end"):
            return False
        if not wf(rgp, rcl, m.parent_length) or m.parent_length != plen:
            return False
        # oracle: gap length inserted at sequence position x is the sum over both maps
        want = 0
        for p, l in list(zip(gp, gl)) + list(zip(hp, hl)):
            if p == x:
                want = want + l
        got = 0
        prev = 0
        for p, c in zip(rgp, rcl):
            if p == x:
                got = c - prev
            prev = c
        return got == want

    return check


def mk_minus_shared(G1, G2, which):
    """two rows of one alignment (equal aligned length).
    shared_gaps -> intervals whose union is the set of columns that are gap in both;
    minus_gaps  -> self with those columns of `other`'s gaps removed."""

    def check(p0: int, p1: int, l0: int, l1: int, tail: int, q0: int, q1: int, k0: int, k1: int, tail2: int, j: int) -> bool:
        """
        pre: pre_layout(G1, p0, p1, 0, l0, l1, 0, tail)
        pre: pre_layout(G2, q0, q1, 0, k0, k1, 0, tail2)
        pre: j >= 0
        post: _
        """
        gp, gl, plen = layout(G1, p0, p1, 0, l0, l1, 0, tail)
        hp, hl, qlen = layout(G2, q0, q1, 0, k0, k1, 0, tail2)
        cl, dl = cum(gl), cum(hl)
        alen = plen + cl[-1]
        if alen != qlen + dl[-1]:
            return True
        m1, m2 = mkmap(gp, gl, plen), mkmap(hp, hl, qlen)
        if which == "shared":
            res = m1.shared_gaps(m2)
            if not W.reach("end"):
                return False
            if j >= alen:
                return True
            both = ref(gp, cl, j)[0] and ref(hp, dl, j)[0]
            inres = False
            last = -1
            for a, b in res:
                if not (a < b and a >= last):
                    return False
                last = b
                if a <= j < b:
                    inres = True
            return inres == both
        r = m1.minus_gaps(m2)
        rgp, rcl = ilist(r.gap_pos), ilist(r.cum_gap_lengths)
        if not W.reach("end"):
            return False
        if not wf(rgp, rcl, r.parent_length) or r.parent_length != plen:
            return False
        # oracle: walk columns <= j of the original alignment; column kept unless gap in both rows.
        # pointwise form: number of removed columns before j = |shared ∩ [0,j)|
        if j >= alen:
            return True
        g1 = ref(gp, cl, j)
        g2 = ref(hp, dl, j)
        if g1[0] and g2[0]:
            return True  # column removed
        removed = 0
        prev1 = 0
        for p, c in zip(gp, cl):
            a1, a2 = p + prev1, p + c
            prev1 = c
            prev2 = 0
            for q, d in zip(hp, dl):
                b1, b2 = q + prev2, q + d
                prev2 = d
                lo = a1 if a1 > b1 else b1
                hi = a2 if a2 < b2 else b2
                if hi > j:
                    hi = j
                if hi > lo:
                    removed = removed + (hi - lo)
        got = ref(rgp, rcl, j - removed)
        return got == g1

    return check


# ------------------------------------------------------------------ interval helpers
def mk_coords_ops(which):
    def check(a1: int, a2: int, a3: int, a4: int, b1: int, b2: int, b3: int, b4: int, x: int) -> bool:
        """
        pre: 0 <= a1 < a2 < a3 < a4 and 0 <= b1 < b2 < b3 < b4
        post: _
        """
        A = [(a1, a2), (a3, a4)]
        B = [(b1, b2), (b3, b4)]
        inA = a1 <= x < a2 or a3 <= x < a4
        inB = b1 <= x < b2 or b3 <= x < b4
        if which == "intersect":
            res = L.coords_intersect(A, B)
            if not W.reach("end"):
                return False
            got = False
            for s, e in res:
                if not s < e:
                    return False
                if s <= x < e:
                    got = True
            return got == (inA and inB)
        # coords_minus_coords: each A segment is SHORTENED by its overlap with B (gap-length semantics):
        res = L.coords_minus_coords(numpy.array(A, dtype=object), numpy.array(B, dtype=object)) if not W.PLAIN else L.coords_minus_coords(numpy.array(A), numpy.array(B))
        if not W.reach("end"):
            return False
        want = []
        for s, e in A:
            ov = 0
            for t, u in B:
                lo = s if s > t else t
                hi = e if e < u else u
                if hi > lo:
                    ov = ov + (hi - lo)
            if e - s != ov:
                want.append((s, e - ov))
        return [(s, e) for s, e in res] == want

    return check


# ------------------------------------------------------------------ FeatureMap harnesses
def fmap(kinds, vals, plen):
    """kinds: string over 'S' (span) / 'L' (lost); vals: for S (start, length) for L (length,)"""
    spans = []
    for k, v in zip(kinds, vals):
        if k == "S":
            spans.append(L.Span(v[0], v[0] + v[1]))
        else:
            spans.append(L._LostSpan(v[0]))
    return L.FeatureMap(spans=spans, parent_length=plen)


def fm_read(spans, j):
    """position j of a feature map -> parent index or None (lost)"""
    off = 0
    for s in spans:
        n = len(s) if s.lost else s.length
        if j < off + n:
            if s.lost:
                return None
            if s.reverse:
                return s.end - 1 - (j - off)
            return s.start + (j - off)
        off = off + n
    return -1


def mk_fm_reversed(kinds):
    def check(s0: int, n0: int, s1: int, n1: int, s2: int, n2: int, plen: int, j: int) -> bool:
        """
        pre: s0 >= 0 and s1 >= 0 and s2 >= 0 and n0 > 0 and n1 > 0 and n2 > 0 and j >= 0
        pre: s0 + n0 <= plen and s1 + n1 <= plen and s2 + n2 <= plen
        post: _
        """
        vals = [(s0, n0), (s1, n1), (s2, n2)]
        vals = [v if k == "S" else (v[1],) for k, v in zip(kinds, vals)]
        fm = fmap(kinds, vals, plen)
        r = fm.nucleic_reversed()
        if not W.reach("end"):
            return False
        if len(r) != len(fm) or r.parent_length != plen:
            return False
        if j >= len(fm):
            return True
        a = fm_read(list(fm.spans), len(fm) - 1 - j)
        b = fm_read(list(r.spans), j)
        if a is None or b is None:
            return a is None and b is None
        return 0 <= b < plen and b == plen - 1 - a

    return check


def mk_fm_covered_inverse(nspans, which, PMAX=6):
    def check(s0: int, n0: int, s1: int, n1: int, s2: int, n2: int, plen: int, x: int) -> bool:
        """
        pre: s0 >= 0 and s1 >= 0 and s2 >= 0 and n0 > 0 and n1 > 0 and n2 > 0
        pre: s0 + n0 <= plen and s1 + n1 <= plen and s2 + n2 <= plen
        pre: 0 <= x < plen
        pre: which != "covered" or plen <= PMAX
        post: _
        """
        _ = PMAX  # keep in closure for the precondition
        vals = [(s0, n0), (s1, n1), (s2, n2)][:nspans]
        if which in ("inverse", "shadow"):
            # documented domain of inverse(): non-overlapping spans
            for i in range(nspans):
                for k in range(i + 1, nspans):
                    a, b = vals[i], vals[k]
                    if a[0] < b[0] + b[1] and b[0] < a[0] + a[1]:
                        return True
        fm = fmap("S" * nspans, vals, plen)
        inorig = False
        for s, n in vals:
            if s <= x < s + n:
                inorig = True
        if which == "covered":
            r = fm.covered()
            if not W.reach("end"):
                return False
            last = -1
            inres = False
            for s in r.spans:
                if s.lost:
                    return False
                if not (s.start > last and s.end > s.start and s.end <= plen):
                    return False  # disjoint, ordered, non-adjacent not required but non-overlapping is
                last = s.end - 1
                if s.start <= x < s.end:
                    inres = True
            return inres == inorig
        if which == "shadow":
            r = fm.shadow()
            if not W.reach("end"):
                return False
            inres = False
            for s in r.spans:
                if s.lost:
                    continue
                if not (0 <= s.start < s.end <= plen):
                    return False
                if s.start <= x < s.end:
                    inres = True
            return inres == (not inorig)
        # inverse: maps parent coordinate x -> position in the feature (or lost)
        r = fm.inverse()
        if not W.reach("end"):
            return False
        if len(r) != plen or r.parent_length != len(fm):
            return False
        got = fm_read(list(r.spans), x)
        if not inorig:
            return got is None
        if got is None or not (0 <= got < len(fm)):
            return False
        return fm_read(list(fm.spans), got) == x

    return check


def mk_fm_getitem(kinds):
    """FeatureMap[a:b] (composition with a slice): position j of the result reads position a+j"""

    def check(s0: int, n0: int, s1: int, n1: int, plen: int, a: int, b: int, j: int) -> bool:
        """
        pre: s0 >= 0 and s1 >= 0 and n0 > 0 and n1 > 0 and j >= 0
        pre: s0 + n0 <= plen and s1 + n1 <= plen
        pre: 0 <= a < b
        post: _
        """
        vals = [(s0, n0), (s1, n1)]
        vals = [v if k == "S" else (v[1],) for k, v in zip(kinds, vals)]
        fm = fmap(kinds, vals, plen)
        if b > len(fm):
            return True
        r = fm[a:b]
        if not W.reach("end"):
            return False
        if len(r) != b - a or r.parent_length != plen:
            return False
        if j >= b - a:
            return True
        got = fm_read(list(r.spans), j)
        want = fm_read(list(fm.spans), a + j)
        if got is None or want is None:
            return got is None and want is None
        return got == want and 0 <= got < plen

    return check


def mk_span_remap(G):
    """Span.remap_with(IndelMap-as-FeatureMap): an alignment-coordinate span read through a map"""

    def check(p0: int, p1: int, l0: int, l1: int, tail: int, a: int, b: int, j: int) -> bool:
        """
        pre: pre_layout(G, p0, p1, 0, l0, l1, 0, tail)
        pre: 0 <= a < b and j >= 0
        post: _
        """
        gp, gl, plen = layout(G, p0, p1, 0, l0, l1, 0, tail)
        cl = cum(gl)
        alen = plen + (cl[-1] if G else 0)
        if b > alen:
            return True
        fm = mkmap(gp, gl, plen).to_feature_map()
        parts = L.Span(a, b).remap_with(fm)
        if not W.reach("end"):
            return False
        n = 0
        for s in parts:
            n = n + (len(s) if s.lost else s.length)
        if n != b - a:
            return False
        if j >= b - a:
            return True
        got = fm_read(parts, j)
        g, s = ref(gp, cl, a + j)
        if g:
            return got is None
        return got == s

    return check


# ------------------------------------------------------------------ registry
ENCODED = [
    (
        "src/cogent3/core/location.py",
        [
            "IndelMap.__post_init__", "IndelMap.__len__", "IndelMap.__getitem__(int|slice)", "IndelMap.get_seq_index",
            "IndelMap.get_align_index", "_gap_spans", "IndelMap.get_gap_lengths", "IndelMap.__add__", "IndelMap.__mul__",
            "IndelMap.nucleic_reversed", "IndelMap.spans", "IndelMap.nongap", "IndelMap.get_coordinates",
            "IndelMap.get_gap_coordinates", "IndelMap.get_gap_align_coordinates", "IndelMap.from_aligned_segments",
            "IndelMap.joined_segments", "IndelMap.merge_maps", "_update_lengths", "IndelMap.minus_gaps", "IndelMap.shared_gaps",
            "coords_minus_coords", "coords_intersect", "span_and_span", "gap_coords_to_map", "IndelMap.to_feature_map",
            "FeatureMap.__post_init__", "FeatureMap.__getitem__", "as_map", "FeatureMap.inverse", "FeatureMap.covered",
            "FeatureMap.shadow", "FeatureMap.gaps", "FeatureMap.nucleic_reversed", "FeatureMap.from_locations",
            "_spans_from_locations", "Span.remap_with", "Span.__init__", "_LostSpan",
        ],
    )
]
BOUNDS = {
    "quick": [
        "gap runs per map G <= 2 (G <= 3 for len/index conversions); binary operations (G1,G2) <= (2,2), quick runs (1,1),(1,2),(2,1)",
        "all gap positions, gap lengths, tail length, interval ends and probe columns: unbounded mathematical integers",
        "scale factor of __mul__ in {2,3} (shard key)",
        "feature maps: <= 3 spans (forward spans and lost spans); interval helper functions: 2 segments per side",
        "code that hashes coordinates into a dict forces CrossHair to pick concrete keys, so there the *sequence length* is bounded: gap_coords_to_map and joined_segments parent_length <= 6 (gap lengths and intervals still unbounded); FeatureMap.covered parent_length <= 6/4 for 1/2 spans",
    ],
    "thorough": [
        "gap runs per map G <= 3; binary operations (G1,G2) <= (2,2)",
        "all gap positions, gap lengths, tail length, interval ends and probe columns: unbounded mathematical integers",
        "scale factor of __mul__ in {1,2,3,4}",
        "feature maps: <= 3 spans; interval helper functions: 2 segments per side",
        "dict-keyed code: gap_coords_to_map and joined_segments parent_length <= 6; FeatureMap.covered parent_length <= 6/4/3 for 1/2/3 spans",
    ],
}
ASSUMPTIONS = [
    "numpy object-dtype arrays stand in for int32/int64 arrays (location._DEFAULT_GAP_DTYPE rebound to object): machine-int overflow is outside the claim",
    "location.LostSpan rebound to location._LostSpan (bypasses an instance memo cache only)",
    "maps given to operations satisfy the representation invariant (strictly increasing gap positions >= 0, positive gap lengths, last position <= parent_length)",
    "slice intervals lie inside the alignment (0 <= start, stop <= len) after Python's negative-index translation",
    "FeatureMap.inverse/shadow: spans do not overlap (documented precondition)",
]
OUTSIDE = [
    "strided IndelMap slices (NotImplemented by design)",
    "more than 3 gap runs per map; reverse (Span.reverse=True) spans in feature maps",
    "Sequence.parse_out_gaps (regex on symbolic strings is not decidable by CrossHair within budget)",
]
TRUSTED = ["numpy searchsorted/cumsum/diff/union1d/intersect1d on object arrays behave as on integer arrays"]


def obligations(tier):
    obs = []
    T = tier == "thorough"
    Gs = [1, 2, 3] if T else [1, 2]
    for G in [0, 1, 2, 3]:
        obs.append(Ob(f"len_seq_index/G{G}", __name__, "mk_len_index", {"G": G}, timeout=600, twins=("end",) + (("gapcol",) if G else ()), group="index"))
        for ss in (False, True):
            obs.append(Ob(f"align_index/G{G}/stop{int(ss)}", __name__, "mk_align_index", {"G": G, "slice_stop": ss}, timeout=600, twins=("end",) + (("hit",) if (G and ss) else ()), group="index"))
    for G in [0] + Gs:
        obs.append(Ob(f"slice/G{G}", __name__, "mk_slice", {"G": G, "neg": False}, timeout=900, twins=("end", "inside"), group="slice"))
        if G <= 2:
            obs.append(Ob(f"slice_neg_none/G{G}", __name__, "mk_slice", {"G": G, "neg": True}, timeout=900, twins=("end", "inside"), group="slice"))
        obs.append(Ob(f"int_item/G{G}", __name__, "mk_int_item", {"G": G}, timeout=600, group="slice"))
        obs.append(Ob(f"nucleic_reversed/G{G}", __name__, "mk_reversed", {"G": G}, timeout=600, group="ops"))
        obs.append(Ob(f"spans_coords/G{G}", __name__, "mk_spans", {"G": G}, timeout=600, group="reading"))
        obs.append(Ob(f"gap_coords_to_map/G{G}", __name__, "mk_gap_coords_to_map", {"G": G}, timeout=600, group="construct"))
        for K in ([1, 2, 3, 4] if T else [2, 3]):
            if G and (T or G <= 2):
                obs.append(Ob(f"mul/G{G}/x{K}", __name__, "mk_mul", {"G": G, "K": K}, timeout=600, group="ops"))
    for K in [0, 1, 2, 3]:
        obs.append(Ob(f"from_aligned_segments/K{K}", __name__, "mk_from_segments", {"K": K}, timeout=600, group="construct"))
    pairs = [(0, 1), (1, 0), (1, 1), (1, 2), (2, 1)] + ([(2, 2), (0, 2), (2, 0)] if T else [])
    for g1, g2 in pairs:
        obs.append(Ob(f"add/G{g1}x{g2}", __name__, "mk_add", {"G1": g1, "G2": g2}, timeout=900, group="binary"))
        if g1 and g2:
            obs.append(Ob(f"add_canonical/G{g1}x{g2}", __name__, "mk_add_canonical", {"G1": g1, "G2": g2}, timeout=600, group="binary"))
            obs.append(Ob(f"merge_maps/G{g1}x{g2}", __name__, "mk_merge", {"G1": g1, "G2": g2}, timeout=900, group="binary"))
            obs.append(Ob(f"shared_gaps/G{g1}x{g2}", __name__, "mk_minus_shared", {"G1": g1, "G2": g2, "which": "shared"}, timeout=900, group="binary"))
            obs.append(Ob(f"minus_gaps/G{g1}x{g2}", __name__, "mk_minus_shared", {"G1": g1, "G2": g2, "which": "minus"}, timeout=900, group="binary"))
    for G in ([0, 1, 2] if T else [0, 1]):
        if G == 2:
            # dict-keyed code with two gap runs: thousands of concrete key choices; attempted with a shorter sequence, not counted if not exhausted
            obs.append(Ob(f"joined_segments/G{G}", __name__, "mk_joined", {"G": G, "PMAX": 4}, timeout=3600, group="binary", optional=True))
        else:
            obs.append(Ob(f"joined_segments/G{G}", __name__, "mk_joined", {"G": G}, timeout=900, group="binary"))
    for which in ("intersect", "minus"):
        obs.append(Ob(f"coords_{which}", __name__, "mk_coords_ops", {"which": which}, timeout=900, group="intervals"))
    for kinds in ["S", "SS", "SLS", "LSL", "SSS"]:
        obs.append(Ob(f"fm_reversed/{kinds}", __name__, "mk_fm_reversed", {"kinds": kinds}, timeout=600, group="featuremap"))
    for n in [1, 2, 3]:
        for which in ("covered", "inverse", "shadow"):
            if which == "covered" and n == 3 and not T:
                continue
            pmax = {1: 6, 2: 4 if T else 3, 3: 2}[n]
            obs.append(Ob(f"fm_{which}/n{n}", __name__, "mk_fm_covered_inverse", {"nspans": n, "which": which, "PMAX": pmax}, timeout=1800 if (which == "covered" and n == 3) else 900, group="featuremap", optional=(which == "covered" and n == 3)))
    for kinds in ["S", "SS", "SL", "LS"]:
        obs.append(Ob(f"fm_getitem/{kinds}", __name__, "mk_fm_getitem", {"kinds": kinds}, timeout=900, group="featuremap"))
    for G in [0, 1, 2]:
        obs.append(Ob(f"span_remap/G{G}", __name__, "mk_span_remap", {"G": G}, timeout=900, group="featuremap"))
    return obs


def classify(name, args, cex, rep):
    if name.startswith("spans_coords/"):
        return "IndelMap.get_coordinates:last-segment-dropped"
    if name.startswith("add_canonical/"):
        return "IndelMap.__add__:adjacent-gap-runs-not-merged"
    return None
