"""C11 — likelihood is invariant under relabelling, reordering, column multiplicity, edge splitting and (reversible) re-rooting.

Engine E2 (psx), reusing the C02 harness: the real kernels produce the per-column likelihood polynomial for two
arrangements of the same problem; z3 decides that they are the same function of the free symbols.
"""
from __future__ import annotations

import itertools
import time

import numpy
import z3

from props import c02
from vlib import psx
from vlib import w as W
from vlib.core import Ob

PROPERTY_ID = "C11"
ENGINE = c02.ENGINE
TECHNIQUE = "two arrangements of one likelihood problem are pushed through the real pruning kernels on z3 Real terms; equality of the resulting per-column polynomials / weighted LOG sums for all matrices, root probabilities and leaf vectors is decided by z3 (QF_NRA, LOG matched modulo provably equal arguments)"
CLAIM = (
    "for free per-edge matrices, root probabilities and leaf vectors: permuting children or sequence order, permuting / merging / repeating columns (k-fold for symbolic k), "
    "splitting an edge into two (matrix product) and sliding the root along an edge whose matrix is in detailed balance with the root probabilities leave the likelihood computed by the real kernels unchanged."
)


def _lik(newick, M, columns, tips_order=None, Pmap=None, pi=None, profiles=None, npat=2):
    """run the real kernels; returns (tree, full-length column likelihoods, total log-likelihood, lht)"""
    from cogent3 import make_tree

    tree = make_tree(treestring=newick)
    tips = tree.get_tip_names()
    cols = columns
    if tips_order is not None:
        # columns are given in `tips_order`; re-express them in this tree's own tip order
        pos = {t: i for i, t in enumerate(tips_order)}
        cols = [tuple(c[pos[t]] for t in tips) for c in columns]
    leaves = c02.make_leaves(tree, cols, profiles, None)
    lht, rp = c02.root_partial(tree, leaves, Pmap)
    lh = c02.column_lh(lht, rp, pi)
    return tree, lht.get_full_length_likelihoods(lh), lht.get_log_sum_across_sites(lh), lht, lh


def _symbols(M, edges, tips, npat=2, vals=None):
    if vals is not None:  # float replay of a solver model (unassigned symbols: 0, as z3's model completion)
        g = lambda k: float(vals.get(k, 0.0))
        P = {e: numpy.array([[g(f"P_{e}_{i}{j}") for j in range(M)] for i in range(M)]) for e in edges}
        pi = numpy.array([g(f"pi{i}") for i in range(M)])
        profiles = {t: {k: [g(f"L_{t}_{k}_{y}") for y in range(M)] for k in range(npat)} for t in tips}
        return P, pi, profiles
    P = {e: psx.obj_array((M, M), lambda i, j, e=e: psx.real(f"P_{e}_{i}{j}")) for e in edges}
    pi = psx.obj_array(M, lambda i: psx.real(f"pi{i}"))
    profiles = {t: {k: [psx.real(f"L_{t}_{k}_{y}") for y in range(M)] for k in range(npat)} for t in tips}
    return P, pi, profiles


def _decide_equal_lists(A, xs, ys, what):
    nq = 0
    for i, (x, y) in enumerate(zip(xs, ys)):
        r, m, dt = psx.check_valid(A, psx.term(x) == psx.term(y), timeout_ms=600000)
        nq += 1
        if r == "sat":
            return {"status": "cex", "cex": {"what": f"{what} column {i}", "values": {str(d): psx.model_float(m, d()) for d in m.decls() if d.arity() == 0}}, "queries": nq}
        if r != "unsat":
            return {"status": "inconclusive", "detail": f"{what} column {i}: z3 {r} after {dt:.0f}s"}
    return {"status": "holds", "queries": nq}


def mk_invariance(kind, M, _replay=None):
    t0 = time.time()
    vals = None
    if _replay is not None:
        vals = _replay.get("values")
        if vals is None:
            return {"status": "not_reproduced", "detail": "counterexample carries no values"}
    else:
        c02.install_py_kernels()
    cols4 = lambda n: [tuple(0 for _ in range(n)), tuple((i % 2) for i in range(n)), tuple(1 for _ in range(n)), tuple(((i + 1) % 2) for i in range(n))]
    A = []
    if kind == "children_order":
        n1, n2 = "((a,b)ab,c,d)root;", "(d,(b,a)ab,c)root;"
        tips = ["a", "b", "c", "d"]
        P, pi, prof = _symbols(M, ["a", "b", "ab", "c", "d"], tips, vals=vals)
        cols = cols4(4)

        def run():
            r1 = _lik(n1, M, cols, tips, P, pi, prof)
            r2 = _lik(n2, M, cols, tips, P, pi, prof)
            return r1[1], r2[1], r1[2], r2[2]

    elif kind == "sequence_order":
        # same tree, alignment rows supplied in a different order (the unique-column index is built per row order)
        n1 = "((a,b)ab,c)root;"
        tips = ["a", "b", "c"]
        P, pi, prof = _symbols(M, ["a", "b", "ab", "c"], tips, vals=vals)
        cols = cols4(3)

        def run():
            r1 = _lik(n1, M, cols, tips, P, pi, prof)
            # rows reordered: c, a, b -> the columns are tuples in that order
            order2 = ["c", "a", "b"]
            cols2 = [tuple(c[tips.index(t)] for t in order2) for c in cols]
            r2 = _lik(n1, M, cols2, order2, P, pi, prof)
            return r1[1], r2[1], r1[2], r2[2]

    elif kind in ("column_permutation", "column_duplication", "column_kfold"):
        n1 = "((a,b)ab,c)root;"
        tips = ["a", "b", "c"]
        P, pi, prof = _symbols(M, ["a", "b", "ab", "c"], tips, vals=vals)
        cols = cols4(3)[:3]
        k = z3.Real("k") if vals is None else float(vals.get("k", 2.0))
        A = [k >= 1] if vals is None else []

        def run():
            r1 = _lik(n1, M, cols, tips, P, pi, prof)
            if kind == "column_permutation":
                r2 = _lik(n1, M, [cols[2], cols[0], cols[1]], tips, P, pi, prof)
                return [r1[2]], [r2[2]], None, None
            if kind == "column_duplication":
                r2 = _lik(n1, M, cols + cols, tips, P, pi, prof)
                return [2 * r1[2]], [r2[2]], None, None
            # every column repeated k times: the real root edge with its counts scaled by a symbolic k
            lht, lh = r1[3], r1[4]
            if vals is not None:
                lht.counts = numpy.array([k * float(c) for c in lht.counts], dtype=float)
                return [k * r1[2]], [lht.get_log_sum_across_sites(lh)], None, None
            lht.counts = numpy.array([psx.SReal(k) * float(c) for c in lht.counts], dtype=object)
            tk = lht.get_log_sum_across_sites(lh)
            return [psx.SReal(k) * r1[2]], [tk], None, None

    elif kind == "edge_split":
        # edge root->a split by a single-child node x: matrices P_x (root->x), P_a2 (x->a); equals one edge with P_x @ P_a2
        n_split, n_plain = "((a)x,b)root;", "(a,b)root;"
        tips = ["a", "b"]
        P, pi, prof = _symbols(M, ["x", "a", "b"], tips, vals=vals)
        cols = cols4(2)

        def run():
            r1 = _lik(n_split, M, cols, tips, P, pi, prof)
            P2 = {"a": numpy.dot(P["x"], P["a"]), "b": P["b"]}
            r2 = _lik(n_plain, M, cols, tips, P2, pi, prof)
            return r1[1], r2[1], r1[2], r2[2]

    elif kind == "edge_split_internal":
        n_split, n_plain = "(((a,b)ab)x,c)root;", "((a,b)ab,c)root;"
        tips = ["a", "b", "c"]
        P, pi, prof = _symbols(M, ["x", "a", "b", "ab", "c"], tips, vals=vals)
        cols = cols4(3)

        def run():
            r1 = _lik(n_split, M, cols, tips, P, pi, prof)
            P2 = dict(P)
            P2["ab"] = numpy.dot(P["x"], P["ab"])
            r2 = _lik(n_plain, M, cols, tips, P2, pi, prof)
            return r1[1], r2[1], r1[2], r2[2]

    elif kind == "root_move":
        # edge (u,v) with matrix P_v in detailed balance with pi: root at u  ==  root at v
        n_u, n_v = "(a,b,(c,d)v)root;", "((a,b)u,c,d)root;"
        tips = ["a", "b", "c", "d"]
        P, pi, prof = _symbols(M, ["a", "b", "c", "d", "v"], tips, vals=vals)
        cols = cols4(4)[:2]
        for x in (range(M) if vals is None else ()):
            for y in range(M):
                if y > x:
                    A.append(psx.term(pi[x]) * psx.term(P["v"][x, y]) == psx.term(pi[y]) * psx.term(P["v"][y, x]))

        def run():
            r1 = _lik(n_u, M, cols, tips, P, pi, prof)
            P2 = dict(P)
            P2["u"] = P["v"]
            r2 = _lik(n_v, M, cols, tips, P2, pi, prof)
            return r1[1], r2[1], None, None

    elif kind == "root_move_cherry":
        n_u, n_v = "(a,(b,c)v)root;", "((a)u,b,c)root;"
        tips = ["a", "b", "c"]
        P, pi, prof = _symbols(M, ["a", "b", "c", "v"], tips, vals=vals)
        cols = cols4(3)[:2]
        for x in (range(M) if vals is None else ()):
            for y in range(M):
                if y > x:
                    A.append(psx.term(pi[x]) * psx.term(P["v"][x, y]) == psx.term(pi[y]) * psx.term(P["v"][y, x]))

        def run():
            r1 = _lik(n_u, M, cols, tips, P, pi, prof)
            P2 = dict(P)
            P2["u"] = P["v"]
            r2 = _lik(n_v, M, cols, tips, P2, pi, prof)
            return r1[1], r2[1], None, None

    else:
        raise KeyError(kind)

    if vals is not None:
        # replay: the same two arrangements, floats, the real Defn graph and the compiled kernels
        xs, ys, t1, t2 = run()
        pairs = list(zip(xs, ys)) + ([(t1, t2)] if t1 is not None else [])
        bad = [f"{float(x)!r} != {float(y)!r}" for x, y in pairs if not abs(float(x) - float(y)) <= 1e-9 * max(1.0, abs(float(x)), abs(float(y)))]
        return {"status": "reproduced" if bad else "not_reproduced", "detail": "; ".join(bad)[:400]}
    paths, stats = psx.explore(run, A)
    if len(paths) != 1 or paths[0].exc is not None:
        return {"status": "inconclusive", "detail": f"forked or raised: {paths[0].exc!r}"}
    xs, ys, t1, t2 = paths[0].result
    if not W.reach("end"):
        return {"status": "cex", "cex": {"twin": f"reached, {len(xs)} compared terms"}}
    nq = 0
    if kind.startswith("column_"):
        r, info = psx.prove_equal_modulo_uf(A, psx.term(xs[0]), psx.term(ys[0]))
        nq += info["queries"]
        if r == "sat":
            m = info["model"]
            return {"status": "cex", "cex": {"what": kind, "values": {str(d): psx.model_float(m, d()) for d in m.decls() if d.arity() == 0}}, "queries": nq}
        if r != "unsat":
            return {"status": "inconclusive", "detail": f"z3 {r} matched={info['matched']} apps={info['apps']}"}
        return {"status": "holds", "paths": 1, "queries": nq, "solver_s": round(time.time() - t0, 2)}
    res = _decide_equal_lists(A, xs, ys, kind)
    if res["status"] != "holds":
        return res
    nq = res["queries"]
    if t1 is not None:
        r, info = psx.prove_equal_modulo_uf(A, psx.term(t1), psx.term(t2))
        nq += info["queries"]
        if r == "sat":
            m = info["model"]
            return {"status": "cex", "cex": {"what": "total lnL", "values": {str(d): psx.model_float(m, d()) for d in m.decls() if d.arity() == 0}}}
        if r != "unsat":
            return {"status": "inconclusive", "detail": f"total: z3 {r}"}
    return {"status": "holds", "paths": 1, "queries": nq, "detail": f"{len(xs)} columns compared, states={M}", "solver_s": round(time.time() - t0, 2)}


ENCODED = c02.ENCODED
BOUNDS = {
    "quick": ["tree shapes with <= 4 tips as listed per obligation; states M=2 (M=4 for children/sequence order, columns, edge split)", "3-4 alignment columns built from 2 symbolic leaf vectors per tip", "k-fold repetition: k symbolic real >= 1",
              "root move: M=2, the moved edge's matrix in detailed balance with the root probabilities"],
    "thorough": ["as quick; root move also at M=4 (optional: reported if z3 gives up within the cap)"],
}
ASSUMPTIONS = c02.ASSUMPTIONS + ["re-rooting: detailed balance pi_x P_xy = pi_y P_yx is assumed for the matrix of the edge the root slides along (what time-reversibility gives); nothing is assumed about other edges"]
OUTSIDE = c02.OUTSIDE + ["set_alignment name mapping through the parameter controller", "motif-sized blocks > 1 (column blocks are handled before the kernels)"]
TRUSTED = c02.TRUSTED


def obligations(tier):
    T = tier == "thorough"
    obs = []
    for kind in ("children_order", "sequence_order", "column_permutation", "column_duplication", "column_kfold", "edge_split", "edge_split_internal"):
        for M in (2, 4):
            obs.append(Ob(f"{kind}/M{M}", __name__, "mk_invariance", {"kind": kind, "M": M}, kind="direct", timeout=1200, group="invariance"))
    for kind in ("root_move", "root_move_cherry"):
        obs.append(Ob(f"{kind}/M2", __name__, "mk_invariance", {"kind": kind, "M": 2}, kind="direct", timeout=1200, group="reroot"))
        if T:
            obs.append(Ob(f"{kind}/M4", __name__, "mk_invariance", {"kind": kind, "M": 4}, kind="direct", timeout=2400, group="reroot", optional=True))
    return obs


def classify(name, args, cex, rep):
    return None
