"""C17 — annotation databases return exactly the matching records.

Engine E3: the real query methods are called with sentinel arguments and `_execute_sql` intercepted;
the SQL text + bound values they emit are translated to SMT (vlib/sqlsmt.py) over ONE symbolic
record and symbolic query values, and z3 decides equivalence with the linear-scan predicate.
"""
from __future__ import annotations

import itertools
import time

import z3

from vlib import sqlsmt
from vlib import w as W
from vlib.core import Ob

PROPERTY_ID = "C17"
ENGINE = "E3 SQL-WHERE -> SMT (z3) on SQL emitted by the real code"
TECHNIQUE = "real query plumbing executed with sentinel arguments; emitted SQL WHERE clause translated to SMT; z3 decides equivalence with the linear-scan predicate for all records and all query values; counterexamples replayed on a real SQLite-backed db"
CLAIM = (
    "for every subset of query arguments (2^7 shapes x allow_partial x table) the WHERE clause emitted by get_features_matching / "
    "get_records_matching / num_matches is equivalent to the linear-scan predicate for ALL records and ALL query values (unbounded ints, arbitrary strings)."
)

STR_COLS = ["seqid", "biotype", "name", "strand", "attributes"]


class QInt(int):
    """int whose text rendering is a variable name: lands verbatim in the f-string SQL"""

    VALUES = {"QSTART": 700001, "QSTOP": 900001}  # what int(x) gives: distinct, recognisable literals (subset() does int(start))

    def __new__(cls, name, term):
        o = int.__new__(cls, cls.VALUES.get(name, 7))
        o.qname = name
        o.z3term = term
        return o

    def __format__(self, spec):
        return self.qname

    def __str__(self):
        return self.qname

    __repr__ = __str__


class QStr(str):
    def __new__(cls, text, term):
        o = str.__new__(cls, text)
        o.z3term = term
        return o


def _mk_db(cls_name):
    from cogent3.core import annotation_db as A

    return getattr(A, cls_name)()


def _capture(db, call):
    """run `call(db)` with _execute_sql intercepted; returns list of (sql, values) for SELECTs"""
    seen = []
    orig = type(db)._execute_sql

    class _Cur(list):
        def fetchone(self):
            return [1]  # COUNT(*): "the table is not empty" (subset() returns early on an empty db)

        def fetchall(self):
            return []

    def fake(self, cmnd, values=None):
        if cmnd.lstrip().upper().startswith("SELECT"):
            seen.append((cmnd, values))
            return _Cur()
        return orig(self, cmnd, values)

    type(db)._execute_sql = fake
    try:
        r = call(db)
        if r is not None and not isinstance(r, int) and hasattr(r, "__iter__"):
            list(r)
    finally:
        type(db)._execute_sql = orig
    return seen


def _oracle(rec, q, given, allow_partial):
    conds = []
    for f in ("seqid", "biotype", "name", "strand"):
        if f in given:
            conds.append(rec[f] == q[f])
    if "attributes" in given:
        conds.append(z3.Contains(rec["attributes"], q["attributes"]))
    if "on_alignment" in given:
        conds.append(rec["on_alignment"] == q["on_alignment"])
    S, E = q["start"], q["stop"]
    if "start" in given and "stop" in given:
        if allow_partial:
            conds.append(z3.And(rec["start"] < E, rec["stop"] > S))
        else:
            conds.append(z3.And(rec["start"] >= S, rec["stop"] <= E))
    elif "start" in given:
        conds.append(z3.And(rec["start"] <= S, S < rec["stop"]))
    elif "stop" in given:
        conds.append(z3.And(rec["start"] <= E, E < rec["stop"]))
    return z3.And(*conds) if conds else z3.BoolVal(True)


def _py_oracle(rec, q, given, allow_partial):
    for f in ("seqid", "biotype", "name", "strand"):
        if f in given and rec[f] != q[f]:
            return False
    if "attributes" in given and q["attributes"] not in (rec["attributes"] or ""):
        return False
    S, E = q.get("start"), q.get("stop")
    if "start" in given and "stop" in given:
        if allow_partial:
            return rec["start"] < E and rec["stop"] > S
        return rec["start"] >= S and rec["stop"] <= E
    if "start" in given:
        return rec["start"] <= S < rec["stop"]
    if "stop" in given:
        return rec["start"] <= E < rec["stop"]
    return True


def _vars():
    rec = {c: z3.String("r_" + c) for c in STR_COLS}
    rec["start"] = z3.Int("r_start")
    rec["stop"] = z3.Int("r_stop")
    rec["on_alignment"] = z3.Int("r_on_alignment")
    q = {c: z3.String("q_" + c) for c in STR_COLS}
    q["start"] = z3.Int("QSTART")
    q["stop"] = z3.Int("QSTOP")
    q["on_alignment"] = z3.IntVal(1)
    return rec, q


SENT = {"seqid": "QSEQID", "biotype": "QBIOTYPE", "name": "QNAME", "strand": "QSTRAND", "attributes": "QATTR"}


def _like_model(q):
    by_text = {v: k for k, v in SENT.items()}

    def like(col, bound):
        if not isinstance(bound, str):
            raise sqlsmt.SqlParseError(f"LIKE with non-string {bound!r}")
        core = bound.strip("%")
        if "%" in core or "_" in core or core not in by_text:
            raise sqlsmt.SqlParseError(f"LIKE pattern outside the '%x%' form: {bound!r}")
        term = q[by_text[core]]
        lead, trail = bound.startswith("%"), bound.endswith("%")
        if lead and trail:
            return z3.Contains(col, term)
        if lead:
            return z3.SuffixOf(term, col)
        if trail:
            return z3.PrefixOf(term, col)
        return col == term

    return like


def _model_val(m, t):
    v = m.eval(t, model_completion=True)
    if z3.is_int_value(v):
        return v.as_long()
    if z3.is_string_value(v):
        return v.as_string()
    return str(v)


def mk_query_equiv(cls_name, method, _replay=None):
    if _replay is not None:
        return _replay_query(cls_name, method, _replay)
    t0 = time.time()
    rec, q = _vars()
    table_names = _mk_db(cls_name).table_names
    fields = ["seqid", "biotype", "name", "strand", "attributes", "start", "stop"]
    if method == "num_matches":
        fields = ["seqid", "biotype", "name", "strand", "attributes"]
    queries = 0
    shapes = 0
    nontrivial = 0
    samples = []
    solver = z3.Solver()
    solver.set("timeout", 60000)
    # documented domain: non-empty record, non-empty window
    base = [rec["start"] < rec["stop"], q["start"] < q["stop"], rec["start"] >= 0, q["start"] >= 0]
    base += [z3.Length(q[c]) > 0 for c in STR_COLS]  # an empty query string is treated as "not given" by the code
    for r in range(len(fields) + 1):
        for given in itertools.combinations(fields, r):
            for allow_partial in ((False, True) if ("start" in given or "stop" in given) else (False,)):
                for on_aln in ((False, True) if method not in ("num_matches", "subset") else (False,)):
                    shapes += 1
                    kw = {}
                    for f in given:
                        if f in SENT:
                            kw[f] = QStr(SENT[f], q[f])
                        elif f == "start":
                            kw[f] = QInt("QSTART", q["start"])
                        elif f == "stop":
                            kw[f] = QInt("QSTOP", q["stop"])
                    if on_aln:
                        kw["on_alignment"] = True
                    if method != "num_matches":
                        kw["allow_partial"] = allow_partial
                    db = _mk_db(cls_name)
                    seen = _capture(db, lambda d: getattr(d, method)(**kw))
                    if method == "subset":
                        # len(self) before the per-table selects; subset() converts the window to plain ints, which appear as the two
                        # recognisable literals: put the variable names back
                        seen = [(x[0].replace(str(QInt.VALUES["QSTART"]), "QSTART").replace(str(QInt.VALUES["QSTOP"]), "QSTOP"), x[1]) for x in seen if "COUNT(" not in x[0].upper()]
                    want_tables = ["user"] if on_aln else list(table_names)
                    if len(seen) != len(want_tables):
                        return {"status": "cex", "cex": {"given": list(given), "allow_partial": allow_partial, "on_alignment": on_aln, "problem": f"queried {len(seen)} tables, expected {want_tables}"}, "queries": queries}
                    for (sql, vals), tname in zip(seen, want_tables):
                        head, where = sqlsmt.where_of(sql)
                        if not head.upper().endswith("FROM " + tname.upper()):
                            return {"status": "inconclusive", "detail": f"unexpected statement {sql!r}"}
                        g = set(given)
                        if on_aln:
                            g.add("on_alignment")
                        if tname != "user":
                            g.discard("on_alignment")
                        oracle = _oracle(rec, q, g, allow_partial)
                        if where is None:
                            f = z3.BoolVal(True)
                        else:
                            env = {c: rec[c] for c in rec}
                            env["QSTART"] = q["start"]
                            env["QSTOP"] = q["stop"]
                            try:
                                f = sqlsmt.translate(where, vals, env, _like_model(q))
                            except sqlsmt.SqlParseError as e:
                                # not in the translator's grammar: is it SQL at all? (real SQLite decides; a statement it rejects makes the
                                # public call raise, which is a violation for every record)
                                import sqlite3

                                try:
                                    probe_sql = sql.replace("QSTART", "0").replace("QSTOP", "1")
                                    _mk_db(cls_name).db.execute("EXPLAIN " + probe_sql, tuple("x" for _ in (vals or ())))
                                except sqlite3.OperationalError as se:
                                    return {"status": "cex", "cex": {"given": sorted(g), "allow_partial": allow_partial, "table": tname, "sql": sql, "invalid_sql": str(se)}, "queries": queries}
                                return {"status": "inconclusive", "detail": f"cannot translate {sql!r} {vals!r}: {e}"}
                        if not W.reach("end"):
                            solver.push()
                            solver.add(*base)
                            solver.add(f)
                            a = str(solver.check())
                            solver.pop()
                            solver.push()
                            solver.add(*base)
                            solver.add(z3.Not(f))
                            b = str(solver.check())
                            solver.pop()
                            if where is not None and a == "sat" and b == "sat":
                                return {"status": "cex", "cex": {"twin": "formula both satisfiable and falsifiable", "sql": sql}, "queries": 2}
                            continue
                        solver.push()
                        solver.add(*base)
                        solver.add(z3.Xor(f, oracle))
                        res = str(solver.check())
                        queries += 1
                        if where is not None:
                            nontrivial += 1
                        if len(samples) < 2 and where is not None and len(given) >= 3:
                            samples.append({"sql": sql, "values": [str(v) for v in (vals or [])], "oracle": str(oracle)[:300]})
                        if res == "sat":
                            m = solver.model()
                            cex = {
                                "given": sorted(g), "allow_partial": allow_partial, "table": tname, "sql": sql,
                                "record": {c: _model_val(m, rec[c]) for c in rec},
                                "query": {c: _model_val(m, q[c]) for c in q if c != "on_alignment"},
                                "sql_selects": bool(m.eval(f, model_completion=True)),
                            }
                            solver.pop()
                            return {"status": "cex", "cex": cex, "queries": queries}
                        solver.pop()
                        if res != "unsat":
                            return {"status": "inconclusive", "detail": f"z3 said {res} on {sql!r}", "queries": queries}
    if not W.reach("end"):
        return {"status": "inconclusive", "detail": "twin: no non-trivial formula seen"}
    return {"status": "holds", "queries": queries, "paths": shapes, "detail": f"{shapes} query shapes, {queries} equivalence queries ({nontrivial} with a WHERE clause), all unsat; samples={samples}", "solver_s": round(time.time() - t0, 2)}


def _replay_query(cls_name, method, cex):
    """real db, real SQLite: insert the model's record, run the model's query, compare with the python linear scan"""
    if "invalid_sql" in cex:
        db = _mk_db(cls_name)
        db.add_feature(seqid="s", biotype="gene", name="n", spans=[(2, 10)], strand="+")
        kw = {f: {"start": 0, "stop": 15}.get(f, "s") for f in cex["given"] if f != "on_alignment"}
        try:
            r = getattr(db, method)(**kw) if method == "num_matches" else getattr(db, method)(allow_partial=cex["allow_partial"], **kw)
            if r is not None and not isinstance(r, int) and method != "subset":
                list(r)
        except Exception as e:  # noqa
            return {"status": "reproduced", "detail": f"{method}({kw}) raised {type(e).__name__}: {e}"}
        return {"status": "not_reproduced", "detail": f"{method}({kw}) ran"}
    if "record" not in cex:
        return {"status": "reproduced", "detail": str(cex)}
    db = _mk_db(cls_name)
    rec, q = cex["record"], cex["query"]
    given = set(cex["given"])
    if cex["table"] == "user":
        db.add_feature(seqid=rec["seqid"], biotype=rec["biotype"], name=rec["name"], spans=[(rec["start"], rec["stop"])],
                       strand=rec["strand"], attributes=rec["attributes"], on_alignment=bool(rec["on_alignment"]))
    elif cex["table"] == "gff":
        db.add_records({"k": dict(seqid=rec["seqid"], biotype=rec["biotype"], name=rec["name"], spans=[(rec["start"], rec["stop"])], strand=rec["strand"], attributes=rec["attributes"])})
    else:
        from cogent3.core.annotation_db import _add_record_sql
        import numpy

        sql, vals = _add_record_sql(cex["table"], dict(seqid=rec["seqid"], biotype=rec["biotype"], name=rec["name"], start=rec["start"], stop=rec["stop"],
                                                        strand=rec["strand"], attributes=rec["attributes"], spans=numpy.array([(rec["start"], rec["stop"])])))
        db._execute_sql(sql, vals)
    kw = {f: q[f] for f in given if f in q}
    if "on_alignment" in given:
        kw["on_alignment"] = True
    if method == "num_matches":
        got = db.num_matches(**kw) > 0
    elif method == "subset":
        got = len(db.subset(allow_partial=cex["allow_partial"], **kw)) > 0
    else:
        got = len(list(getattr(db, method)(allow_partial=cex["allow_partial"], **kw))) > 0
    want = _py_oracle(rec, q, given, cex["allow_partial"])
    if "on_alignment" in given and not rec["on_alignment"]:
        want = False
    if got != want:
        return {"status": "reproduced", "detail": f"real db returned {got}, linear scan says {want}"}
    return {"status": "not_reproduced", "detail": f"real db and linear scan agree ({got})"}


# ------------------------------------------------------------------ E1: start/stop are the extremes of the spans
def setup_symbolic():
    import types

    import numpy

    from cogent3.core import annotation_db as A

    shim = types.SimpleNamespace(**{k: getattr(numpy, k) for k in dir(numpy) if not k.startswith("__")})

    def array(x, dtype=None, **kw):
        if dtype is int:
            x = [list(r) for r in x]
            a = numpy.empty((len(x), 2), dtype=object)
            for i, r in enumerate(x):
                a[i, 0], a[i, 1] = r[0], r[1]
            return a
        return numpy.array(x, dtype=dtype, **kw)

    def _int(v):  # int(numpy scalar) on a symbolic value would realise it
        return v

    def array(x, dtype=None, **kw):  # noqa: F811
        if dtype is int or dtype is _int:
            x = [list(r) for r in x]
            a = numpy.empty((len(x), 2), dtype=object)
            for i, r in enumerate(x):
                a[i, 0], a[i, 1] = r[0], r[1]
            return a
        return numpy.array(x, dtype=dtype, **kw)

    shim.array = array
    A.numpy = shim
    A.int = _int


def mk_add_feature_extremes(nspans):
    """add_feature: stored start/stop = min/max over all span coordinates whatever the order given"""

    def check(a0: int, b0: int, a1: int, b1: int, a2: int, b2: int) -> bool:
        """
        pre: a0 >= 0 and b0 >= 0 and a1 >= 0 and b1 >= 0 and a2 >= 0 and b2 >= 0
        post: _
        """
        from cogent3.core import annotation_db as A

        spans = [(a0, b0), (a1, b1), (a2, b2)][:nspans]
        seen = []

        class Db(A.BasicAnnotationDb):
            def _execute_sql(self, cmnd, values=None):
                if cmnd.lstrip().upper().startswith("INSERT"):
                    seen.append((cmnd, values))
                    return None
                return super()._execute_sql(cmnd, values)

        db = Db()
        db.add_feature(seqid="s", biotype="gene", name="n", spans=spans, strand="+")
        if not W.reach("end"):
            return False
        sql, vals = seen[0]
        cols = [c.strip() for c in sql[sql.index("(") + 1 : sql.index(")")].split(",")]
        recd = dict(zip(cols, vals))
        flat = [x for s in spans for x in s]
        mn, mx = flat[0], flat[0]
        for x in flat:
            mn = x if x < mn else mn
            mx = x if x > mx else mx
        if not (recd["start"] == mn and recd["stop"] == mx):
            return False
        # stored spans: each (lo, hi) ordered, rows sorted
        sp = recd["spans"]
        prev = None
        for row in sp:
            if not row[0] <= row[1]:
                return False
            if prev is not None and (prev[0] > row[0]):
                return False
            prev = row
        return True

    return check


def mk_gff_records(nspans):
    """GffAnnotationDb.add_records (what loading a GFF file ends in): a record merged from several rows of one ID is stored with
    start/stop = min/max over ALL its span coordinates, whatever the order and nesting of the rows"""

    def check(a0: int, b0: int, a1: int, b1: int, a2: int, b2: int) -> bool:
        """
        pre: a0 >= 0 and b0 >= 0 and a1 >= 0 and b1 >= 0 and a2 >= 0 and b2 >= 0
        post: _
        """
        from cogent3.core import annotation_db as A

        spans = [(a0, b0), (a1, b1), (a2, b2)][:nspans]
        seen = []

        class Conn:
            def __init__(self, real):
                self.real = real

            def execute(self, *a, **kw):
                return self.real.execute(*a, **kw)

            def executemany(self, sql, rows):
                seen.append((sql, rows))

            def commit(self):
                return self.real.commit()

            def __enter__(self):
                self.real.__enter__()
                return self

            def __exit__(self, *a):
                return self.real.__exit__(*a)

            def __getattr__(self, name):
                return getattr(self.real, name)

        class Db(A.GffAnnotationDb):
            @property
            def db(self):
                return Conn(A.GffAnnotationDb.db.fget(self))

        db = Db()
        db.add_records({"x": {"seqid": "s", "biotype": "gene", "name": "x", "spans": [list(sp) for sp in spans], "strand": "+"}})
        if not W.reach("end"):
            return False
        sql, rows = seen[-1]
        cols = [c.strip() for c in sql[sql.index("(") + 1 : sql.index(")")].split(",")]
        recd = dict(zip(cols, rows[0]))
        flat = [x for sp in spans for x in sp]
        mn, mx = flat[0], flat[0]
        for x in flat:
            mn = x if x < mn else mn
            mx = x if x > mx else mx
        return recd["start"] == mn and recd["stop"] == mx

    return check


ENCODED = [
    ("src/cogent3/core/annotation_db.py", ["_matching_conditions", "_select_records_sql", "_count_records_sql", "SqliteAnnotationDbMixin.get_features_matching",
                                           "SqliteAnnotationDbMixin.get_records_matching", "SqliteAnnotationDbMixin._get_records_matching",
                                           "SqliteAnnotationDbMixin.num_matches", "SqliteAnnotationDbMixin.add_feature (start/stop/spans normalisation)", "GffAnnotationDb.add_records (start/stop of merged records)",
                                           "BasicAnnotationDb / GffAnnotationDb / GenbankAnnotationDb table routing"]),
]
BOUNDS = {
    "quick": ["all 2^7 subsets of {seqid, biotype, name, strand, attributes, start, stop} x allow_partial x on_alignment, for 3 db classes and 4 methods (get_features_matching, get_records_matching, num_matches, subset); a statement outside the translator's grammar is handed to real SQLite: if SQLite rejects it, that is the counterexample",
              "one symbolic record; strings unbounded (z3 sequence theory), ints unbounded; record and window non-empty (start < stop), coordinates >= 0",
              "add_feature and GffAnnotationDb.add_records: 1..2 spans (thorough: 3) with arbitrary (also reversed, overlapping, nested, unsorted) non-negative coordinates"],
}
BOUNDS["thorough"] = BOUNDS["quick"]
ASSUMPTIONS = [
    "SQLite evaluates the WHERE clause as written (trusted); '=' is binary string equality; LIKE '%x%' is modelled as substring containment, i.e. query strings contain no LIKE metacharacters (% _) and case-insensitivity of LIKE is ignored",
    "columns are non-NULL for the compared fields; query strings are non-empty (an empty string is treated as 'not given' by the code)",
    "zero-length records (start == stop) and empty windows are outside the claim: the property text does not fix their meaning",
    "one-sided windows follow the documented forms: only start -> features containing start; only stop -> features containing stop",
]
OUTSIDE = ["union / update / subset / pickle / write multiset preservation (state lives in SQLite)", "GFF / GenBank text parsing and 1-based -> 0-based conversion", "get_feature_children / get_feature_parent id matching"]
TRUSTED = ["vlib/sqlsmt.py translator (validated each run by executing sample clauses in real SQLite against the z3 model evaluation)", "SQLite"]


def validate(tier):
    """translator validation: concrete records x concrete queries through real SQLite vs the python linear scan vs z3 evaluation of the translated formula."""
    import random

    from cogent3.core.annotation_db import BasicAnnotationDb

    rnd = random.Random(1)
    bad = 0
    n = 0
    recs = []
    db = BasicAnnotationDb()
    for i in range(40):
        s = rnd.randint(0, 20)
        e = s + rnd.randint(1, 10)
        r = dict(seqid=rnd.choice(["s1", "s2"]), biotype=rnd.choice(["gene", "cds"]), name=f"n{i%7}", start=s, stop=e, strand=rnd.choice("+-"), attributes=rnd.choice(["ab", "xaby", "q"]))
        recs.append(r)
        db.add_feature(seqid=r["seqid"], biotype=r["biotype"], name=r["name"], spans=[(s, e)], strand=r["strand"], attributes=r["attributes"])
    for _ in range(150):
        given = set(f for f in ["seqid", "biotype", "name", "strand", "attributes", "start", "stop"] if rnd.random() < 0.4)
        S = rnd.randint(0, 20)
        q = dict(seqid="s1", biotype="gene", name="n3", strand="+", attributes="ab", start=S, stop=S + rnd.randint(1, 8))
        ap = rnd.random() < 0.5
        got = sorted((r["name"], r["start"], r["stop"]) for r in db.get_records_matching(allow_partial=ap, **{k: q[k] for k in given}))
        want = sorted((r["name"], r["start"], r["stop"]) for r in recs if _py_oracle(r, q, given, ap))
        n += 1
        if got != want:
            bad += 1
    return bad == 0, f"real SQLite vs python linear scan on {n} random concrete queries x 40 records: {bad} mismatches"


def obligations(tier):
    obs = []
    for cls in ("BasicAnnotationDb", "GffAnnotationDb", "GenbankAnnotationDb"):
        for method in ("get_features_matching", "get_records_matching", "num_matches", "subset"):
            obs.append(Ob(f"where_equiv/{cls}/{method}", __name__, "mk_query_equiv", {"cls_name": cls, "method": method}, kind="direct", timeout=600, group="sql"))
    for n in ((1, 2, 3) if tier == "thorough" else (1, 2)):
        obs.append(Ob(f"add_feature_extremes/n{n}", __name__, "mk_add_feature_extremes", {"nspans": n}, timeout=600, group="insert"))
        obs.append(Ob(f"gff_records_extremes/n{n}", __name__, "mk_gff_records", {"nspans": n}, timeout=600, group="insert"))
    from props import c17_ops

    for cls in c17_ops.CLASSES:
        for op in c17_ops.OPS:
            obs.append(Ob(f"records_preserved/{cls}/{op}", "props.c17_ops", "mk_db_op", {"op": op, "cls_name": cls}, timeout=1800, group="ops", grade="realised-input"))
    obs.append(Ob("records_preserved/Basic+Gff/union", "props.c17_ops", "mk_db_op", {"op": "union", "cls_name": "BasicAnnotationDb", "other_cls": "GffAnnotationDb"}, timeout=1800, group="ops", grade="realised-input"))
    return obs


def classify(name, args, cex, rep):
    if name.endswith("/subset") and "invalid_sql" in (cex or {}):
        return "subset:window-only-query-builds-invalid-sql"
    if "num_matches" in name and cex.get("given") == ["attributes"]:
        return "num_matches:attributes-exact-match"
    return None
