"""C18 — aligning to a reference keeps each sequence's pairwise alignment with the reference (gap-merging part).

Engine E1 (CrossHair). The real gap-merging functions of cogent3.app.align are composed exactly as
pairwise_to_multiple composes them and run on two symbolic pairwise alignments (ref, s1), (ref, s2).
The code keys dicts by gap position, which forces CrossHair to pick concrete keys, so positions and
lengths are small bounded integers (stated); within the bound every layout is covered.
"""
from __future__ import annotations

from vlib import w as W
from vlib.core import Ob

PROPERTY_ID = "C18"
ENGINE = 'E1 CrossHair 0.0.110 (z3) + E2 psx for the DP engine dispatch'
TECHNIQUE = 'CrossHair symbolic execution of the real gap-merging helpers of pairwise_to_multiple on two symbolic pairwise alignments (positions symbolic, gap lengths shard keys), columns compared with the reference-anchored reading; DP engine choice by proxy execution with symbolic sizes and limit, routing condition decided by z3 (QF_NRA)'
CLAIM = (
    "for every pair of valid pairwise alignments to one reference within the bounds, the merged multiple alignment has equal-length rows, keeps every sequence's length, "
    "and aligns to every reference residue exactly the residue (or gap) that the pairwise alignment aligned to it; residues inserted relative to the reference stay between the same reference residues."
)


def merge(ref_len, pw):
    """pw: list of (ref_gaps dict, other_gaps dict, other_len). Returns (ref map gaps, [other gaps...]) using the REAL functions,
    wired as in pairwise_to_multiple."""
    from cogent3.app import align as A

    ref_gaps = {}
    for rg, og, ol in pw:
        ref_gaps = A._merged_gaps(ref_gaps, dict(rg))
    out = []
    for rg, og, ol in pw:
        diff_gaps = A._combined_refseq_gaps(dict(rg), ref_gaps)
        inject = A._gaps_for_injection(dict(og), diff_gaps, ol)
        out.append(inject if inject else dict(og))
    return ref_gaps, out


def col_of(gaps, seq_pos):
    """alignment column of residue seq_pos given {insert pos: length}"""
    c = seq_pos
    for p, l in gaps.items():
        if p <= seq_pos:
            c = c + l
    return c


def read(gaps, seq_len, col):
    """(is_gap, residue index) at alignment column `col`"""
    items = sorted(gaps.items())
    prev = 0
    for p, l in items:
        gs = p + prev
        if col < gs:
            return False, col - prev
        if col < gs + l:
            return True, p
        prev = prev + l
    return False, col - prev


def total(gaps):
    t = 0
    for v in gaps.values():
        t = t + v
    return t


def valid_pair(ref_len, rg, og, ol):
    """a pairwise alignment: equal row lengths, no column that is a gap in both rows, gap positions inside the sequences"""
    if ref_len + total(rg) != ol + total(og):
        return False
    for p in rg:
        if not (0 <= p <= ref_len):
            return False
    for p in og:
        if not (0 <= p <= ol):
            return False
    alen = ref_len + total(rg)
    for c in range(alen):
        if read(rg, ref_len, c)[0] and read(og, ol, c)[0]:
            return False
    return True


def known_class(pw):
    """the recorded defect: a gap that has to be injected (because the reference row gained a gap from another pairwise alignment)
    falls STRICTLY INSIDE an existing gap run of the other sequence, in pairwise-alignment coordinates"""
    from cogent3.app import align as A

    ref_gaps = {}
    for rg, og, ol in pw:
        ref_gaps = A._merged_gaps(ref_gaps, dict(rg))
    for rg, og, ol in pw:
        diff = A._combined_refseq_gaps(dict(rg), ref_gaps)
        cumlen = 0
        for p, l in sorted(og.items()):
            a0, a1 = p + cumlen, p + cumlen + l
            cumlen = cumlen + l
            for gp in diff:
                if a0 < gp < a1:
                    return True
    return False


def mk(rl1, rl2, sl1, sl2, exclude_known=False, RLMAX=3):
    """gap LENGTHS are shard keys (they select dict shapes); gap POSITIONS and the reference length are symbolic"""

    def check(RL: int, rp1: int, sp1: int, rp2: int, sp2: int, r: int) -> bool:
        """
        pre: 1 <= RL <= RLMAX and 0 <= rp1 <= RL and 0 <= rp2 <= RL
        pre: 0 <= sp1 <= RLMAX + 2 and 0 <= sp2 <= RLMAX + 2
        pre: 0 <= r < RL
        post: _
        """
        _ = RLMAX
        rg1 = {rp1: rl1} if rl1 else {}
        rg2 = {rp2: rl2} if rl2 else {}
        og1 = {sp1: sl1} if sl1 else {}
        og2 = {sp2: sl2} if sl2 else {}
        ol1 = RL + rl1 - sl1
        ol2 = RL + rl2 - sl2
        if ol1 < 0 or ol2 < 0:
            return True
        if (not sl1 and sp1 != 0) or (not sl2 and sp2 != 0) or (not rl1 and rp1 != 0) or (not rl2 and rp2 != 0):
            return True  # canonical form for "no gap": position 0
        if not valid_pair(RL, rg1, og1, ol1) or not valid_pair(RL, rg2, og2, ol2):
            return True
        pw = [(rg1, og1, ol1), (rg2, og2, ol2)]
        if exclude_known and known_class(pw):
            return True
        ref_gaps, others = merge(RL, pw)
        if not W.reach("end"):
            return False
        alen = RL + total(ref_gaps)
        for (rg, og, ol), ng in zip(pw, others):
            # rows have equal length and sequences keep their length
            if ol + total(ng) != alen:
                return False
            for p in ng:
                if not (0 <= p <= ol) or ng[p] <= 0:
                    return False
            # the residue aligned to reference residue r is unchanged
            before = read(og, ol, col_of(rg, r))
            after = read(ng, ol, col_of(ref_gaps, r))
            if before[0] != after[0]:
                return False
            if not before[0] and before[1] != after[1]:
                return False
            # residues inserted before reference residue r stay before it (and after residue r-1)
            if not before[0] and not after[0] and r > 0:
                b2 = read(og, ol, col_of(rg, r - 1))
                a2 = read(ng, ol, col_of(ref_gaps, r - 1))
                if not b2[0] and not a2[0] and (before[1] - b2[1]) != (after[1] - a2[1]):
                    return False
        return True

    return check


def validate(tier):
    """the wiring above vs the real pairwise_to_multiple on concrete alignments (non-deciding)"""
    from cogent3 import make_aligned_seqs, make_seq
    from cogent3.app.align import pairwise_to_multiple

    ref = make_seq("ACGTAC", name="ref", moltype="dna")
    cases = [
        ({"ref": "AC-GTAC", "s1": "ACTGTAC"}, {"ref": "ACGT--AC", "s2": "ACGTTTAC"}),
        ({"ref": "ACGTAC", "s1": "A-GTAC"}, {"ref": "-ACGTAC", "s2": "TACGTAC"}),
        ({"ref": "AC--GTAC", "s1": "ACTTGTAC"}, {"ref": "AC-GTAC", "s2": "ACTG-AC"}),
    ]
    bad = 0
    for p1, p2 in cases:
        a1 = make_aligned_seqs(p1, moltype="dna", array_align=False)
        a2 = make_aligned_seqs(p2, moltype="dna", array_align=False)
        got = pairwise_to_multiple([("s1", a1), ("s2", a2)], ref, "dna").to_dict()
        pw = []
        for aln, nm in ((a1, "s1"), (a2, "s2")):
            rg = dict(aln.named_seqs["ref"].map.get_gap_coordinates())
            og = dict(aln.named_seqs[nm].map.get_gap_coordinates())
            pw.append((rg, og, len(aln.named_seqs[nm].data)))
        ref_gaps, others = merge(6, pw)

        def render(text, gaps):
            out = []
            for i in range(len(text) + 1):
                out.append("-" * gaps.get(i, 0))
                if i < len(text):
                    out.append(text[i])
            return "".join(out)

        mine = {"ref": render("ACGTAC", ref_gaps), "s1": render(p1["s1"].replace("-", ""), others[0]), "s2": render(p2["s2"].replace("-", ""), others[1])}
        if mine != got:
            bad += 1
    return bad == 0, f"hand wiring of the gap-merging functions vs pairwise_to_multiple on {len(cases)} concrete cases: {bad} mismatches"


# ---------------------------------------------------------------- which DP engine runs (full matrix vs Hirschberg)
class _Route(Exception):
    pass


def mk_dispatch(local, backward, nstates, _replay=None):
    """PairEmissionProbs.dp chooses between the full traceback matrix and the linear-space Hirschberg recursion. Hirschberg is
    global-only (scores_at_rows asserts `not local`): a local alignment must take the full-matrix route whatever its size;
    a global one takes Hirschberg exactly when the first sequence has >= 3 positions, the pass is forward and
    rows * columns * states exceeds HIRSCHBERG_LIMIT. Sequence sizes and the limit are symbolic; the engines are stubs."""
    import time
    import types
    import warnings

    import z3

    import cogent3.align.pairwise as PW
    from vlib import psx

    t0 = time.time()
    # sizes as reals: the routing condition is polynomial (rows * cols * states > limit), decided in QF_NRA; integrality plays no role
    Mv, Nv, Lv, Bv = z3.Real("rows"), z3.Real("cols"), z3.Real("limit"), z3.Real("encoder_bytes")
    A = [Mv >= 2, Nv >= 2, Lv >= 1, Bv >= 1, Bv <= 8]

    def run(M, N, L, B):
        ep = object.__new__(PW.PairEmissionProbs)
        enc = types.SimpleNamespace(bytes=B, get_empty_array=lambda dims: (_ for _ in ()).throw(_Route("full")))
        ep.pair = types.SimpleNamespace(size=[M, N], get_pointer_encoding=lambda n: enc)
        ep.hirschberg = lambda TM, opts: (_ for _ in ()).throw(_Route("hirschberg"))
        T = [[0.0] * nstates for _ in range(nstates)]
        opts = PW.DPFlags(viterbi=True, local=local)
        saved = PW.HIRSCHBERG_LIMIT
        PW.HIRSCHBERG_LIMIT = L
        try:
            with warnings.catch_warnings():
                warnings.simplefilter("ignore")
                ep.dp((None, T), opts, backward=backward)
        except _Route as r:
            return str(r)
        finally:
            PW.HIRSCHBERG_LIMIT = saved
        return "neither"

    if _replay is not None:
        import math

        M, N, L, B = (int(math.ceil(float(_replay[k]))) for k in ("rows", "cols", "limit", "encoder_bytes"))
        got = run(M, N, L, B)
        want = "hirschberg" if (not local and not backward and M - 2 >= 3 and M * N * nstates > L) else "full"
        return {"status": "reproduced" if got != want else "not_reproduced", "detail": f"rows={M} cols={N} states={nstates} limit={L} local={local}: route {got}, expected {want}"}

    paths, stats = psx.explore(lambda: run(psx.SReal(Mv), psx.SReal(Nv), psx.SReal(Lv), psx.SReal(Bv)), A)
    if not W.reach("end"):
        routes = sorted({p.result for p in paths if p.exc is None})
        return {"status": "cex" if routes else "inconclusive", "cex": {"twin": f"routes reached: {routes}"}}
    nq = 0
    cond = z3.And(z3.BoolVal(not local and not backward), Mv - 2 >= 3, Mv * Nv * nstates > Lv)
    for p in paths:
        if p.exc is not None:
            return {"status": "inconclusive", "detail": f"raised {p.exc!r}"}
        claim = cond if p.result == "hirschberg" else z3.Not(cond) if p.result == "full" else z3.BoolVal(False)
        r, m, dt = psx.check_valid(A + list(p.assertions), claim, timeout_ms=120000)
        nq += 1
        if r == "sat":
            return {"status": "cex", "cex": {str(v): psx.model_float(m, v) for v in (Mv, Nv, Lv, Bv)}, "queries": nq}
        if r != "unsat":
            return {"status": "inconclusive", "detail": f"z3 {r}"}
    return {"status": "holds", "paths": len(paths), "queries": nq, "detail": f"routes {sorted({p.result for p in paths})}", "solver_s": round(time.time() - t0, 2)}


ENCODED = [("src/cogent3/app/align.py", ["_GapOffset.__init__", "_GapOffset.__getitem__", "_merged_gaps", "_gap_difference", "_subset_gaps_to_align_coords", "_combined_refseq_gaps", "_gaps_for_injection"])]
BOUNDS = {
    "quick": ["two pairwise alignments to one reference; reference length 1..2 (symbolic); each row has at most ONE gap run; gap lengths are shard keys (reference row 0..2, at most one non-reference row gapped, length 0..2); all gap positions symbolic inside the sequences",
              "bounded small integers because the code keys dicts by position (CrossHair must pick concrete keys)"],
}
BOUNDS["thorough"] = ["reference length 1..3, reference-row gap lengths up to 3, other-row lengths 0..2 each, one order of the two (interchangeable) pairwise alignments, total gap length <= 6; shards in which all four rows carry a gap are OPTIONAL (about 30 000 paths each, not exhausted within 30 min when measured: attempted for 15 min, reported, never counted)"]
ASSUMPTIONS = [
    "inputs are valid pairwise alignments: equal row lengths, no column that is a gap in both rows",
    "the composition of the helper functions reproduces pairwise_to_multiple (validated each run against the real function on concrete alignments); Alignment construction / to_type at the end is outside",
]
OUTSIDE = ["everything dynamic-programming: pair-HMM Viterbi kernels, Hirschberg, traceback, progressive alignment: score optimality and linear-space vs full-DP agreement are NOT claimed",
           "more than one gap run per row, more than two pairwise alignments, reference longer than 3"]
TRUSTED = ["the column reader in props/c18.py"]


def _dispatch_obligations():
    obs = []
    for local in (False, True):
        for backward in (False, True):
            obs.append(Ob(f"dp_dispatch/{'local' if local else 'global'}/{'backward' if backward else 'forward'}", __name__, "mk_dispatch",
                          {"local": local, "backward": backward, "nstates": 5}, kind="direct", timeout=600, group="dispatch"))
    return obs


def obligations(tier):
    T = tier == "thorough"
    obs = _dispatch_obligations()
    rls = range(0, 4) if T else range(0, 3)
    sls = range(0, 3)
    for rl1 in rls:
        for rl2 in rls:
            for sl1 in sls:
                for sl2 in sls:
                    if (rl1, sl1) > (rl2, sl2):
                        continue  # one order of the (interchangeable) pairwise alignments
                    if not T and (sl1 + sl2 > 2 or (sl1 and sl2)):
                        continue  # quick: at most one gapped non-reference row
                    if T and rl1 + rl2 + sl1 + sl2 > 6:
                        continue  # thorough: total gap length <= 6 (the largest shards need > 30 min each)
                    args = {"rl1": rl1, "rl2": rl2, "sl1": sl1, "sl2": sl2, "RLMAX": 3 if T else 2}
                    tag = f"ref{rl1}_{rl2}/other{sl1}_{sl2}"
                    # all four rows gapped: ~30 000 paths, not exhausted within 30 min (measured) -> attempted, reported, not counted
                    heavy = bool(rl1 and rl2 and sl1 and sl2)
                    to = 900 if heavy else 1800
                    if max(sl1, sl2) >= 2 and max(rl1, rl2) >= 1:
                        # a gap run of length >= 2 has an interior: the recorded finding is possible here.
                        obs.append(Ob(f"merge/{tag}", __name__, "mk", args, timeout=to, group="merge", expect_known=KNOWN_KEY, optional=heavy))
                        obs.append(Ob(f"merge_excl_known/{tag}", __name__, "mk", dict(args, exclude_known=True), timeout=to, group="merge", optional=heavy))
                    else:
                        obs.append(Ob(f"merge/{tag}", __name__, "mk", args, timeout=to, group="merge", optional=heavy))
    return obs


KNOWN_KEY = "pairwise_to_multiple:injected-gap-strictly-inside-other-gap"


def classify(name, args, cex, rep):
    if not name.startswith("merge/"):
        return None
    rl1, rl2, sl1, sl2 = args["rl1"], args["rl2"], args["sl1"], args["sl2"]
    RL = cex["RL"]
    rg1 = {cex["rp1"]: rl1} if rl1 else {}
    rg2 = {cex["rp2"]: rl2} if rl2 else {}
    og1 = {cex["sp1"]: sl1} if sl1 else {}
    og2 = {cex["sp2"]: sl2} if sl2 else {}
    pw = [(rg1, og1, RL + rl1 - sl1), (rg2, og2, RL + rl2 - sl2)]
    return KNOWN_KEY if known_class(pw) else None
