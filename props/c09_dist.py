"""C09 (part 3) - tree-to-tree distances: zero exactly for equal topologies, symmetric, Robinson-Foulds equal to an independent
split-set / clade-set computation. Realised-input grade: the PAIR of labelled trees is one mixed-radix symbolic integer over all
labelled binary trees with the given number of tips (15 rooted trees on 4 tips, 15 unrooted trees on 5 tips; 105 / 105 in
thorough), realised up front; the metrics then run concretely on the real TreeNode objects.
"""
from __future__ import annotations

import itertools

from vlib import w as W


def _rooted_binary(tips):
    """all labelled rooted binary trees on `tips` as nested tuples (canonical: children sorted by their smallest tip)"""
    tips = list(tips)
    if len(tips) == 1:
        return [tips[0]]
    out = []
    first, rest = tips[0], tips[1:]
    for k in range(0, len(rest)):
        for left_rest in itertools.combinations(rest, k):
            left = [first] + list(left_rest)
            right = [t for t in rest if t not in left_rest]
            if not right:
                continue
            for lt in _rooted_binary(left):
                for rt in _rooted_binary(right):
                    out.append((lt, rt))
    return out


def _newick(t):
    return t if isinstance(t, str) else "(" + ",".join(_newick(c) for c in t) + ")"


def _clades(t, acc):
    if isinstance(t, str):
        return frozenset([t])
    s = frozenset().union(*[_clades(c, acc) for c in t])
    acc.add(s)
    return s


def labelled_trees(ntips, rooted):
    tips = [chr(ord("a") + i) for i in range(ntips)]
    if rooted:
        return [(_newick(t) + ";", t) for t in _rooted_binary(tips)]
    # unrooted binary trees on n tips <-> rooted binary trees on n-1 tips with the last tip attached at the root (trifurcating root)
    out = []
    for t in _rooted_binary(tips[:-1]):
        out.append(("(" + _newick(t[0]) + "," + _newick(t[1]) + "," + tips[-1] + ");", (t[0], t[1], tips[-1])))
    return out


def mk_distance(rooted, ntips):
    trees = labelled_trees(ntips, rooted)
    N = len(trees)
    TOTAL = N * N
    alltips = frozenset(chr(ord("a") + i) for i in range(ntips))

    def clade_set(t):
        acc = set()
        _clades(t, acc)
        return {c for c in acc if 1 < len(c) < ntips}  # proper clades

    def split_set(t):
        ref = "a"
        return {c if ref not in c else alltips - c for c in clade_set(t) if 1 < len(c) < ntips - 1} | set()

    NBLOCKS = W.nblocks(TOTAL)

    def check(code: int) -> bool:
        """
        pre: 0 <= code < NBLOCKS
        post: _
        """
        _ = NBLOCKS
        code, untraced = W.concrete(code)  # `code` numbers a block of W.BLOCK consecutive inputs (see vlib.w.nblocks)
        with untraced:
            return W.run_block(code, TOTAL, body)

    def body(code):
        import cogent3

        i, j = code % N, code // N
        (n1, s1), (n2, s2) = trees[i], trees[j]
        t1, t2 = cogent3.make_tree(treestring=n1), cogent3.make_tree(treestring=n2)
        if not W.reach("end"):
            return False
        if rooted:
            want_rf = len(clade_set(s1) ^ clade_set(s2))
            same = clade_set(s1) == clade_set(s2)
            methods_rf, methods_match = ("rooted_robinson_foulds", "rrf", "rf"), ("matching_cluster", "mc", "matching", None)
        else:
            a, b = split_set(s1), split_set(s2)
            want_rf = len(a ^ b)
            same = a == b
            methods_rf, methods_match = ("unrooted_robinson_foulds", "urf", "rf"), ("lin_rajan_moret", "lrm", "matching", None)
        if i != j and same:
            return False  # the enumeration itself must not repeat a topology
        for m in methods_rf:
            if t1.tree_distance(t2, method=m) != want_rf or t2.tree_distance(t1, method=m) != want_rf:
                return False
        for m in methods_match:
            d12, d21 = t1.tree_distance(t2, method=m), t2.tree_distance(t1, method=m)
            if d12 != d21 or (d12 == 0) != same or d12 < 0:
                return False
        if not rooted and t1.lin_rajan_moret(t2) != t1.tree_distance(t2, method="lrm"):
            return False
        return True

    return check


# ---------------------------------------------------------------- the VALUE of the matching cluster distance (rooted, polytomies allowed)
def _partitions(items):
    """all set partitions of a list (first element's block chosen first: no duplicates)"""
    if not items:
        yield []
        return
    first, rest = items[0], items[1:]
    for k in range(len(rest) + 1):
        for others in itertools.combinations(rest, k):
            block = [first] + list(others)
            remaining = [x for x in rest if x not in others]
            for p in _partitions(remaining):
                yield [block] + p


def all_rooted_trees(tips):
    """every rooted tree (multifurcations allowed, no single-child nodes) on the labelled tips, as nested tuples"""
    tips = list(tips)
    if len(tips) == 1:
        return [tips[0]]
    out = []
    for p in _partitions(tips):
        if len(p) < 2:
            continue
        for combo in itertools.product(*[all_rooted_trees(b) for b in p]):
            out.append(tuple(combo))
    return out


def mk_matching_cluster(ntips, shard=0, nshards=1):
    """matching_cluster_distance == min over all perfect matchings of the two cluster sets (padded with empty clusters) of the summed
    symmetric-difference sizes (Bogdanowicz & Giaro 2013), by brute force over permutations"""
    tips = [chr(ord("a") + i) for i in range(ntips)]
    trees = all_rooted_trees(tips)
    firsts = [t for k, t in enumerate(trees) if k % nshards == shard]
    TOTAL = len(firsts) * len(trees)

    def clusters(t):
        acc = set()
        _clades(t, acc)
        return [c for c in acc if 1 < len(c) < ntips]

    def brute(c1, c2):
        n = max(len(c1), len(c2))
        a = list(c1) + [frozenset()] * (n - len(c1))
        b = list(c2) + [frozenset()] * (n - len(c2))
        if n == 0:
            return 0
        return min(sum(len(x ^ y) for x, y in zip(a, perm)) for perm in itertools.permutations(b))

    NBLOCKS = W.nblocks(TOTAL)

    def check(code: int) -> bool:
        """
        pre: 0 <= code < NBLOCKS
        post: _
        """
        _ = NBLOCKS
        code, untraced = W.concrete(code)  # `code` numbers a block of W.BLOCK consecutive inputs (see vlib.w.nblocks)
        with untraced:
            return W.run_block(code, TOTAL, body)

    def body(code):
        import cogent3

        s1, s2 = firsts[code % len(firsts)], trees[code // len(firsts)]
        t1, t2 = cogent3.make_tree(treestring=_newick(s1) + ";"), cogent3.make_tree(treestring=_newick(s2) + ";")
        if not W.reach("end"):
            return False
        if len(s1) != 2 or len(s2) != 2:
            return True  # the metric is defined for rooted (bifurcating-root) trees; polytomies below the root are allowed
        want = brute(clusters(s1), clusters(s2))
        return t1.tree_distance(t2, method="matching_cluster") == want and t2.tree_distance(t1, method="mc") == want

    return check
