"""C02 — log-likelihood equals the first-principles Felsenstein sum-product (pruning algebra).

Engine E2 (psx): the real pruning kernels run on z3 Real terms: one free symbolic transition matrix
per edge, symbolic root probabilities, symbolic leaf vectors. How P=exp(Qt) is obtained is outside.
"""
from __future__ import annotations

import itertools
from fractions import Fraction
import time
import types

import numpy
import z3

from vlib import psx
from vlib import w as W
from vlib.core import Ob

PROPERTY_ID = "C02"
ENGINE = "E2 psx (z3 Real terms through the real kernels) + E1 CrossHair for _indexed"
TECHNIQUE = "the real pruning kernels (numba .py_func, numpy.inner, LikelihoodTreeEdge index/count logic) executed on z3 Real terms with free per-edge transition matrices; per-column likelihood and weighted log-sum proved equal to an independent sum-product recursion by z3; leaf profiles vs ambiguity sets decided as a finite-domain query"
CLAIM = (
    "for every enumerated tree shape, ALL transition matrices (free symbols per edge), ALL root probabilities and ALL leaf vectors the per-column likelihood "
    "computed by the real kernels equals sum_x pi_x prod_children sum_y P_xy L_child(y); totals are the count-weighted LOG sum; column likelihoods over all columns sum to one for stochastic P; "
    "leaf profiles are the indicator of the symbol's compatible-state set for every IUPAC symbol."
)


# ---------------------------------------------------------------- wiring (mirrors make_partial_likelihood_defns / make_total_loglikelihood_defn)
def install_py_kernels():
    """the numba kernels are executed through their .py_func (same source numba compiles)"""
    import cogent3.evolve.likelihood_tree as LT
    from cogent3.evolve import likelihood_tree_numba as K

    LT.likelihood_tree = types.SimpleNamespace(
        sum_input_likelihoods=K.sum_input_likelihoods.py_func,
        inner_product=K.inner_product.py_func,
        get_log_sum_across_sites=K.get_log_sum_across_sites.py_func,
    )


def make_leaves(tree, columns, profiles, alphabet):
    """columns: list of tuples (one pattern id per tip, in tree tip order); profiles[tip][pattern id] -> vector (len M).
    Uses the real _indexed and LikelihoodTreeLeaf."""
    import cogent3.evolve.likelihood_tree as LT

    tips = tree.get_tip_names()
    leaves = {}
    for ti, name in enumerate(tips):
        seq = [col[ti] for col in columns]
        uniq, counts, index = LT._indexed(seq)
        M = len(profiles[name][uniq[0]])
        lik = numpy.empty((len(uniq) + 1, M), dtype=float if W.PLAIN else object)
        for u, pat in enumerate(uniq):
            for y in range(M):
                lik[u, y] = profiles[name][pat][y]
        for y in range(M):
            lik[len(uniq), y] = 1.0 if W.PLAIN else psx.const(1)  # the extra all-gap column
        uniq = list(uniq) + ["?"]
        counts = numpy.array(list(counts) + [0], float)
        leaves[name] = LT.LikelihoodTreeLeaf(uniq, lik, counts, index, name, alphabet, None)
    return leaves


def eval_defn(defn, inputs, memo=None):
    """a 30-line interpreter for the Defn graph the real code builds: leaves are looked up in `inputs` by name,
    SelectFromDimension picks inputs[name][category], every CalculationDefn runs its own .calc on the evaluated args.
    (The real ParameterController / Calculator does the same through cells; its float-typed recycled buffers are
    replaced by an object-dtype buffer so that z3 terms fit.)"""
    from cogent3.evolve.likelihood_tree import _LikelihoodTreeEdge
    from cogent3.recalculation.definition import CalculationDefn
    from cogent3.recalculation.scope import SelectFromDimension, _LeafDefn

    memo = {} if memo is None else memo
    if id(defn) in memo:
        return memo[id(defn)]
    if isinstance(defn, SelectFromDimension):
        (cat,) = defn.selection.values()
        val = inputs[defn.arg.name][cat]
    elif isinstance(defn, _LeafDefn):
        val = inputs[defn.name]
    elif isinstance(defn, CalculationDefn):
        args = [eval_defn(a, inputs, memo) for a in defn.args]
        calc = defn.make_calc_function()
        if defn.recycling and W.PLAIN:
            val = calc(None, *args)  # float replay: the code allocates its own buffer
        elif defn.recycling:
            (lh_edge,) = [a for a in args if isinstance(a, _LikelihoodTreeEdge)]
            recycled = numpy.empty(lh_edge.shape, dtype=object)
            for idx in numpy.ndindex(*lh_edge.shape):
                recycled[idx] = psx.const(1)
            val = calc(recycled, *args)
        else:
            val = calc(*args)
    else:
        raise TypeError(f"eval_defn: unexpected Defn {type(defn).__name__}")
    memo[id(defn)] = val
    return val


def root_partial(tree, leaves, P):
    """real wiring: the Defn graph is built by the real make_partial_likelihood_defns (with the real LikelihoodTreeDefn,
    LeafPartialLikelihoodDefn, LhtEdgeLookupDefn, PartialLikelihoodProductDefnFixedMotif and the numpy.inner CalcDefns)
    and evaluated by eval_defn on z3 terms; no motif is fixed (fixed_motif = None on every edge)"""
    from cogent3.evolve import likelihood_calculation as LC
    from cogent3.recalculation.definition import NonParamDefn

    leaves_d = NonParamDefn("leaf_likelihoods")
    psubs_d = NonParamDefn("psubs", ["edge"])
    fixed_d = NonParamDefn("fixed_motif", ["edge"])
    lht_d = LC.LikelihoodTreeDefn(leaves_d, tree=tree)
    plh_d = LC.make_partial_likelihood_defns(tree, lht_d, psubs_d, fixed_d)
    names = [n.name for n in tree.traverse(include_self=True)]
    inputs = {"leaf_likelihoods": leaves, "psubs": P, "fixed_motif": {n: None for n in names}}
    memo = {}
    rp = eval_defn(plh_d, inputs, memo)
    return memo[id(lht_d)], rp


def column_lh(lht, root_plh, pi):
    return numpy.inner(root_plh, pi)


# ---------------------------------------------------------------- oracle
def oracle_column(tree, col, tips, profiles, P, pi, M):
    """sum_x pi_x prod_children sum_y P_xy L_child(y), written directly over z3 terms"""
    pos = {n: i for i, n in enumerate(tips)}

    def down(node, x):
        if node.istip():
            return psx.term(profiles[node.name][col[pos[node.name]]][x])
        prod = z3.RealVal(1)
        for ch in node.children:
            prod = prod * z3.Sum([psx.term(P[ch.name][x, y]) * down(ch, y) for y in range(M)])
        return prod

    return z3.Sum([psx.term(pi[x]) * down(tree, x) for x in range(M)])


SHAPES = {
    "cherry": "(a,b)root;",
    "star3": "(a,b,c)root;",
    "rooted3": "((a,b)ab,c)root;",
    "star4": "(a,b,c,d)root;",
    "balanced4": "((a,b)ab,(c,d)cd)root;",
    "ladder4": "(((a,b)ab,c)abc,d)root;",
    "internal_trifurcation": "((a,b,c)abc,d)root;",
    "single_child": "((a)x,b)root;",
    "single_child_deep": "(((a,b)ab)y,c)root;",
}


def symbolic_problem(newick, M, npat=2):
    from cogent3 import make_tree

    tree = make_tree(treestring=newick)
    tips = tree.get_tip_names()
    edges = [n.name for n in tree.traverse(include_self=False)]
    P = {e: psx.obj_array((M, M), lambda i, j, e=e: psx.real(f"P_{e}_{i}{j}")) for e in edges}
    pi = psx.obj_array(M, lambda i: psx.real(f"pi{i}"))
    profiles = {t: {k: [psx.real(f"L_{t}_{k}_{y}") for y in range(M)] for k in range(npat)} for t in tips}
    return tree, tips, edges, P, pi, profiles


def mk_pruning(shape, M, _replay=None):
    t0 = time.time()
    newick = SHAPES[shape]
    tree, tips, edges, P, pi, profiles = symbolic_problem(newick, M)
    n = len(tips)
    # alignment: 4 columns, column 0 and 3 identical (exercises the unique-column index), one all-pattern-1 column
    columns = [tuple(0 for _ in tips), tuple((i % 2) for i in range(n)), tuple(1 for _ in tips), tuple(0 for _ in tips)]
    if _replay is not None:
        return _replay_pruning(newick, M, columns, _replay)  # compiled kernels, floats
    install_py_kernels()

    def run():
        alphabet = None
        leaves = make_leaves(tree, columns, profiles, alphabet)
        lht, rp = root_partial(tree, leaves, P)
        lh = column_lh(lht, rp, pi)
        total = lht.get_log_sum_across_sites(lh)
        full = lht.get_full_length_likelihoods(lh)
        return lht, lh, total, full

    paths, stats = psx.explore(run, [])
    if len(paths) != 1 or paths[0].exc is not None:
        return {"status": "inconclusive", "detail": f"forked or raised: {paths[0].exc!r}"}
    lht, lh, total, full = paths[0].result
    if not W.reach("end"):
        return {"status": "cex", "cex": {"twin": f"reached with {len(lh)} unique columns"}}
    nq = 0
    want_cols = [oracle_column(tree, c, tips, profiles, P, pi, M) for c in columns]
    allvars = _vars_of([psx.term(x) for x in full])
    # (a) full-length per-column likelihoods
    for ci, c in enumerate(columns):
        r, m, dt = psx.check_valid([], psx.term(full[ci]) == want_cols[ci], timeout_ms=300000)
        nq += 1
        if r == "sat":
            return {"status": "cex", "cex": {"what": f"column {ci}", "values": {str(v): psx.model_float(m, v) for v in allvars}}, "queries": nq}
        if r != "unsat":
            return {"status": "inconclusive", "detail": f"column {ci}: z3 {r}"}
    # (b) unique columns / counts: number of unique = 3 (+1 gap column with count 0); counts are multiplicities
    counts = [float(x) for x in lht.counts]
    if sorted(counts) != [0.0, 1.0, 1.0, 2.0]:
        return {"status": "cex", "cex": {"what": f"counts {counts}"}}
    # (c) total = sum over alignment columns of LOG(column likelihood)
    spec_total = z3.Sum([psx.LOG(w) for w in want_cols])
    r, info = psx.prove_equal_modulo_uf([], psx.term(total), spec_total)
    nq += info["queries"]
    if r == "sat":
        return {"status": "cex", "cex": {"what": "total log-likelihood", "values": {str(v): psx.model_float(info["model"], v) for v in allvars if info["model"] is not None}}, "queries": nq}
    if r != "unsat":
        return {"status": "inconclusive", "detail": f"total: z3 {r} matched={info['matched']} apps={info['apps']}"}
    return {"status": "holds", "paths": 1, "queries": nq, "detail": f"tips={n} states={M} unique columns={len(lh)}", "solver_s": round(time.time() - t0, 2)}


def _vars_of(terms):
    seen = {}

    def rec(t):
        if z3.is_const(t) and t.decl().kind() == z3.Z3_OP_UNINTERPRETED:
            seen[str(t)] = t
        for c in t.children():
            rec(c)

    for t in terms:
        rec(t)
    return list(seen.values())


def _replay_pruning(newick, M, columns, cex):
    """floats through the compiled kernels of the unpatched code, against a plain-python sum-product"""
    import cogent3.evolve.likelihood_tree as LT
    from cogent3 import make_tree
    from cogent3.evolve import likelihood_calculation as LC

    vals = cex.get("values", {})
    tree = make_tree(treestring=newick)
    tips = tree.get_tip_names()
    g = lambda k: float(vals.get(k, 0.5))
    P = {e.name: numpy.array([[g(f"P_{e.name}_{i}{j}") for j in range(M)] for i in range(M)]) for e in tree.traverse(include_self=False)}
    pi = numpy.array([g(f"pi{i}") for i in range(M)])
    prof = {t: {k: numpy.array([g(f"L_{t}_{k}_{y}") for y in range(M)]) for k in range(2)} for t in tips}
    leaves = {}
    for ti, name in enumerate(tips):
        seq = [c[ti] for c in columns]
        uniq, counts, index = LT._indexed(seq)
        lik = numpy.array([prof[name][p] for p in uniq] + [numpy.ones(M)])
        leaves[name] = LT.LikelihoodTreeLeaf(list(uniq) + ["?"], lik, numpy.array(list(counts) + [0], float), index, name, None, None)
    lht, root_plh = root_partial(tree, leaves, P)  # the real Defn graph, compiled kernels, floats
    lh = numpy.inner(root_plh, pi)
    full = lht.get_full_length_likelihoods(lh)

    def down(node, x, col):
        if node.istip():
            return prof[node.name][col[tips.index(node.name)]][x]
        r = 1.0
        for ch in node.children:
            r *= sum(P[ch.name][x, y] * down(ch, y, col) for y in range(M))
        return r

    bad = []
    for ci, c in enumerate(columns):
        want = sum(pi[x] * down(tree, x, c) for x in range(M))
        if abs(full[ci] - want) > 1e-9 * max(1, abs(want)):
            bad.append(f"col {ci}: {full[ci]} != {want}")
    return {"status": "reproduced" if bad else "not_reproduced", "detail": "; ".join(bad)[:400]}


# ---------------------------------------------------------------- columns sum to one
def mk_sum_to_one(shape, M, _replay=None):
    t0 = time.time()
    newick = SHAPES[shape]
    tree, tips, edges, P, pi, _ = symbolic_problem(newick, M)
    n = len(tips)
    columns = list(itertools.product(range(M), repeat=n))
    if _replay is not None:
        # floats through the real Defn graph and the compiled kernels
        vals = _replay.get("values", {})
        g = lambda k: float(Fraction(str(vals.get(k, 0))))
        Pf = {e: numpy.array([[g(f"P_{e}_{i}{j}") for j in range(M)] for i in range(M)]) for e in edges}
        pif = numpy.array([g(f"pi{i}") for i in range(M)])
        onehot_f = {t: {k: [1.0 if y == k else 0.0 for y in range(M)] for k in range(M)} for t in tips}
        leaves = make_leaves(tree, columns, onehot_f, None)
        lht, rp = root_partial(tree, leaves, Pf)
        lh = column_lh(lht, rp, pif)
        tot = float(sum(lh[u] * lht.counts[u] for u in range(len(lh))))
        return {"status": "reproduced" if abs(tot - 1) > 1e-9 else "not_reproduced", "detail": f"sum over all columns = {tot!r}"}
    install_py_kernels()
    onehot = {t: {k: [psx.const(1 if y == k else 0) for y in range(M)] for k in range(M)} for t in tips}
    assumptions = []
    for e in edges:
        for i in range(M):
            assumptions.append(z3.Sum([psx.term(P[e][i, j]) for j in range(M)]) == 1)
    assumptions.append(z3.Sum([psx.term(x) for x in pi]) == 1)

    def run():
        leaves = make_leaves(tree, columns, onehot, None)
        lht, rp = root_partial(tree, leaves, P)
        lh = column_lh(lht, rp, pi)
        return lht, lh

    paths, stats = psx.explore(run, assumptions)
    if len(paths) != 1 or paths[0].exc is not None:
        return {"status": "inconclusive", "detail": f"forked or raised: {paths[0].exc!r}"}
    lht, lh = paths[0].result
    if not W.reach("end"):
        return {"status": "cex", "cex": {"twin": "reached"}}
    tot = z3.Sum([psx.term(lh[u]) * int(lht.counts[u]) for u in range(len(lh))])
    r, m, dt = psx.check_valid(assumptions, tot == 1, timeout_ms=600000)
    if r == "sat":
        return {"status": "cex", "cex": {"values": {str(d): str(m[d]) for d in m.decls()}}}
    if r != "unsat":
        return {"status": "inconclusive", "detail": f"z3 {r} after {dt:.0f}s"}
    return {"status": "holds", "paths": 1, "queries": 1, "detail": f"{len(columns)} columns, tips={n}, states={M}", "solver_s": round(time.time() - t0, 2)}


# ---------------------------------------------------------------- binned mixture
def mk_binned(nbins, _replay=None):
    from cogent3.evolve import likelihood_calculation as LC

    t0 = time.time()
    install_py_kernels()
    ncol = 3
    if _replay is not None:
        return {"status": "not_reproduced", "detail": "no float replay"}
    bp = [z3.Real(f"b{i}") for i in range(nbins)]
    lhs_t = [[z3.Real(f"lh{b}_{c}") for c in range(ncol)] for b in range(nbins)]

    def run():
        dist = LC.BinnedSiteDistribution([psx.SReal(b) for b in bp])
        lhs = [psx.obj_array(ncol, lambda c, b=b: psx.SReal(lhs_t[b][c])) for b in range(nbins)]
        return dist.get_weighted_sum_lh(lhs)

    paths, stats = psx.explore(run, [])
    if len(paths) != 1 or paths[0].exc is not None:
        return {"status": "inconclusive", "detail": f"forked or raised: {paths[0].exc!r}"}
    res = paths[0].result
    if not W.reach("end"):
        return {"status": "cex", "cex": {"twin": "reached"}}
    claim = z3.And(*[psx.term(res[c]) == z3.Sum([bp[b] * lhs_t[b][c] for b in range(nbins)]) for c in range(ncol)])
    r, m, dt = psx.check_valid([], claim)
    if r == "sat":
        return {"status": "cex", "cex": {"values": {str(d): str(m[d]) for d in m.decls()}}}
    if r != "unsat":
        return {"status": "inconclusive", "detail": f"z3 {r}"}
    return {"status": "holds", "paths": 1, "queries": 1, "solver_s": round(time.time() - t0, 2)}


# ---------------------------------------------------------------- leaf profiles = compatible-state sets (finite domain)
def mk_leaf_profiles(moltype_name, _replay=None):
    """for a symbolic symbol index s and state y: profile[s][y] == 1 iff state y is in ambiguities[symbol s] (z3 finite-domain query over tables
    extracted this run from the real make_likelihood_tree_leaf)."""
    from cogent3 import get_moltype
    from cogent3.evolve.likelihood_tree import make_likelihood_tree_leaf

    t0 = time.time()
    mt = get_moltype(moltype_name)
    alpha = mt.alphabet
    states = [str(x) for x in alpha]
    symbols = [s for s in mt.ambiguities if s != "-"]
    text = "".join(symbols) * 2
    seq = mt.make_seq(seq=text, name="s")
    leaf = make_likelihood_tree_leaf(seq, alpha, "s")
    if _replay is not None:
        s = symbols[int(_replay["s"])]
        y = int(_replay["y"])
        col = text.index(s)
        got = leaf.input_likelihoods[leaf.index[col]][y]
        want = 1.0 if states[y] in mt.ambiguities[s] else 0.0
        return {"status": "reproduced" if got != want else "not_reproduced", "detail": f"symbol {s} state {states[y]}: profile {got}, compatible {want}"}
    S, Y = z3.Int("s"), z3.Int("y")
    # table extracted from the real leaf, as nested ite
    got = z3.RealVal(-1)
    want = z3.RealVal(-1)
    for si, s in enumerate(symbols):
        col = text.index(s)
        row = leaf.input_likelihoods[leaf.index[col]]
        for yi in range(len(states)):
            cond = z3.And(S == si, Y == yi)
            got = z3.If(cond, z3.RealVal(str(float(row[yi]))), got)
            want = z3.If(cond, z3.RealVal(1 if states[yi] in mt.ambiguities[s] else 0), want)
    dom = [S >= 0, S < len(symbols), Y >= 0, Y < len(states)]
    if not W.reach("end"):
        return {"status": "cex", "cex": {"twin": f"{len(symbols)} symbols x {len(states)} states"}}
    # counts / index consistency too: every symbol occurs twice
    ok_counts = all(leaf.counts[leaf.index[text.index(s)]] == 2 for s in symbols)
    if not ok_counts:
        return {"status": "cex", "cex": {"s": 0, "y": 0, "what": "counts"}}
    r, m, dt = psx.check_valid(dom, got == want)
    if r == "sat":
        return {"status": "cex", "cex": {"s": m[S].as_long(), "y": m[Y].as_long()}}
    if r != "unsat":
        return {"status": "inconclusive", "detail": f"z3 {r}"}
    return {"status": "holds", "paths": 1, "queries": 1, "detail": f"{len(symbols)} symbols x {len(states)} states", "solver_s": round(time.time() - t0, 2)}


def mk_leaf_profiles_words(k, _replay=None):
    """multi-letter motifs (dinucleotide / trinucleotide words): a word is compatible with a state iff EVERY position is, for a
    symbolic tuple of symbol indices and a symbolic state (finite-domain z3 query over tables extracted from the real leaf)."""
    from cogent3 import get_moltype
    from cogent3.evolve.likelihood_tree import make_likelihood_tree_leaf

    t0 = time.time()
    mt = get_moltype("dna")
    alpha = mt.alphabet.get_word_alphabet(k)
    states = [str(x) for x in alpha]
    symbols = [s for s in mt.ambiguities if s != "-"]
    sub = symbols if k == 2 else ["T", "C", "A", "G", "N", "?", "R", "Y"]
    words = ["".join(w) for w in itertools.product(sub, repeat=k)]
    text = "".join(words)
    seq = mt.make_seq(seq=text, name="s")
    leaf = make_likelihood_tree_leaf(seq, alpha, "s")

    def compat(word, state):
        return all(state[i] in mt.ambiguities[word[i]] for i in range(k))

    if _replay is not None:
        w = words[int(_replay["w"])]
        y = int(_replay["y"])
        got = leaf.input_likelihoods[leaf.index[words.index(w)]][y]
        want = 1.0 if compat(w, states[y]) else 0.0
        return {"status": "reproduced" if got != want else "not_reproduced", "detail": f"word {w} state {states[y]}: profile {got}, compatible {want}"}
    Wv, Y = z3.Int("w"), z3.Int("y")
    got = z3.IntVal(-1)
    want = z3.IntVal(-1)
    for wi, w in enumerate(words):
        row = leaf.input_likelihoods[leaf.index[wi]]
        g = z3.IntVal(-1)
        x = z3.IntVal(-1)
        for yi, st in enumerate(states):
            g = z3.If(Y == yi, z3.IntVal(int(row[yi])), g)
            x = z3.If(Y == yi, z3.IntVal(1 if compat(w, st) else 0), x)
        got = z3.If(Wv == wi, g, got)
        want = z3.If(Wv == wi, x, want)
    dom = [Wv >= 0, Wv < len(words), Y >= 0, Y < len(states)]
    if not W.reach("end"):
        return {"status": "cex", "cex": {"twin": f"{len(words)} words x {len(states)} states"}}
    r, m, dt = psx.check_valid(dom, got == want, timeout_ms=600000)
    if r == "sat":
        return {"status": "cex", "cex": {"w": m[Wv].as_long(), "y": m[Y].as_long(), "word": words[m[Wv].as_long()]}}
    if r != "unsat":
        return {"status": "inconclusive", "detail": f"z3 {r}"}
    return {"status": "holds", "paths": 1, "queries": 1, "detail": f"{len(words)} words x {len(states)} states", "solver_s": round(time.time() - t0, 2)}


# ---------------------------------------------------------------- _indexed (E1 CrossHair)
def mk_indexed(n):
    def check(v0: int, v1: int, v2: int, v3: int, v4: int, c: int) -> bool:
        """
        pre: 0 <= v0 <= 2 and 0 <= v1 <= 2 and 0 <= v2 <= 2 and 0 <= v3 <= 2 and 0 <= v4 <= 2
        pre: 0 <= c < n
        post: _
        """
        from cogent3.evolve.likelihood_tree import _indexed

        vals = [v0, v1, v2, v3, v4][:n]
        unique, counts, index = _indexed(vals)
        if not W.reach("end"):
            return False
        if len(unique) != len(counts) or len(index) != n:
            return False
        # unique[index[c]] is the value at c; counts are multiplicities; no duplicates in unique
        if unique[int(index[c])] != vals[c]:
            return False
        cnt = 0
        for v in vals:
            if v == vals[c]:
                cnt += 1
        if counts[int(index[c])] != cnt:
            return False
        for i in range(len(unique)):
            for j in range(i + 1, len(unique)):
                if unique[i] == unique[j]:
                    return False
        tot = 0
        for x in counts:
            tot += x
        return tot == n

    return check


ENCODED = [
    ("src/cogent3/evolve/likelihood_tree.py", ["_LikelihoodTreeEdge.__init__", "LikelihoodTreeEdge.sum_input_likelihoodsR", "LikelihoodTreeEdge.get_log_sum_across_sites",
                                               "_LikelihoodTreeEdge.get_full_length_likelihoods", "_indexed", "LikelihoodTreeLeaf.__init__", "make_likelihood_tree_leaf", "get_matched_array"]),
    ("src/cogent3/evolve/likelihood_tree_numba.py", ["sum_input_likelihoods (.py_func)", "inner_product (.py_func)", "get_log_sum_across_sites (.py_func)"]),
    ("src/cogent3/evolve/likelihood_calculation.py", ["recursive_lht_build", "PartialLikelihoodProductDefn.calc", "BinnedSiteDistribution.get_weighted_sum_lh", "make_partial_likelihood_defns (the real Defn graph, evaluated by props.c02.eval_defn)", "LikelihoodTreeDefn.calc", "LeafPartialLikelihoodDefn.calc", "LhtEdgeLookupDefn.calc", "PartialLikelihoodProductDefnFixedMotif.calc (no fixed motif)", "the final numpy.inner(plh, root_mprobs) of make_total_loglikelihood_defn (reproduced in the harness, validated against lf.get_log_likelihood())"]),
]
BOUNDS = {
    "quick": ["tree shapes: cherry, 3-star, rooted 3, 4-star, balanced 4, ladder 4, internal trifurcation, single-child internal nodes", "states M=2 for all shapes, M=4 for shapes with <= 3 tips; 4 alignment columns with 2 symbolic leaf vectors per tip",
              "sum-to-one: M=2, <= 3 tips", "bins <= 3", "leaf profiles: every DNA / RNA / protein symbol incl. degenerate and '?'; dinucleotide words over all 16 symbols and trinucleotide words over {T,C,A,G,N,?,R,Y}", "_indexed (CrossHair): <= 3 values in 0..2 (dict keys force concrete values; thorough: 4 values)"],
    "thorough": ["as quick, M=4 for all shapes (optional beyond 3 tips: z3 may give up, reported)", "sum-to-one: M=2 <= 4 tips, M=4 <= 2 tips", "bins <= 4"],
}
ASSUMPTIONS = [
    "transition matrices are free symbols: how P=exp(Qt) is obtained (LAPACK eigendecomposition, Pade) is outside the claim",
    "numba kernels are executed through their .py_func; numba code generation is trusted",
    "the 10-line composition of the kernels reproduces make_partial_likelihood_defns / make_total_loglikelihood_defn and is validated every run against lf.get_log_likelihood() and lf.get_full_length_likelihoods() of a real likelihood function (non-deciding)",
    "exact real arithmetic, LOG uninterpreted",
]
OUTSIDE = ["expm back-ends", "calcQ -> psub plumbing through the recalculation graph", "codon / protein alphabets in the pruning polynomial", "site-HMM (log_dot_reduce rescaling loops)", "float rounding / underflow"]
TRUSTED = ["vlib/psx.py", "the oracle recursion in props/c02.py"]


def validate(tier):
    """the hand-wired composition vs the real likelihood function on concrete floats"""
    from cogent3 import make_aligned_seqs, make_tree
    from cogent3.evolve.models import get_model
    import cogent3.evolve.likelihood_tree as LT
    from cogent3.evolve import likelihood_calculation as LC

    tree = make_tree(treestring="((a:0.1,b:0.2)ab:0.05,c:0.3,d:0.15)root;")
    aln = make_aligned_seqs({"a": "ACGTRNAC-A", "b": "ACGCRTAC-A", "c": "AGGTYTACGA", "d": "ACTTATACGG"}, moltype="dna")
    sm = get_model("HKY85")
    lf = sm.make_likelihood_function(tree)
    lf.set_alignment(aln)
    lf.set_param_rule("kappa", init=2.5)
    want = lf.get_log_likelihood()
    want_full = lf.get_full_length_likelihoods()
    psubs = {e: numpy.array(lf.get_psub_for_edge(e)) for e in ("a", "b", "ab", "c", "d")}
    pi = numpy.array([lf.get_motif_probs()[m] for m in sm.get_alphabet()])
    leaves = {}
    for name in aln.names:
        seq = aln.get_gapped_seq(name, recode_gaps=True)
        leaves[name] = LT.make_likelihood_tree_leaf(seq, sm.get_alphabet(), name)
    lht = LC.recursive_lht_build(lf.tree, leaves)

    def plh(edge):
        if edge.istip():
            return lht.get_edge(edge.name).input_likelihoods
        e = lht.get_edge(edge.name)
        kids = [numpy.ascontiguousarray(numpy.inner(plh(ch), psubs[ch.name])) for ch in edge.children]
        return e.sum_input_likelihoodsR(e.make_partial_likelihoods_array(), *kids)

    lh = numpy.inner(plh(lf.tree), pi)
    got = lht.get_log_sum_across_sites(lh)
    full = lht.get_full_length_likelihoods(lh)
    ok = abs(got - want) < 1e-9 and numpy.allclose(full, numpy.array(want_full), rtol=1e-9)
    return ok, f"hand-wired kernels lnL={got:.10f} vs lf.get_log_likelihood()={want:.10f}; full-length likelihoods agree={numpy.allclose(full, numpy.array(want_full))}"


def obligations(tier):
    T = tier == "thorough"
    obs = []
    for shape in SHAPES:
        ntips = SHAPES[shape].count(",") + 1
        obs.append(Ob(f"pruning/{shape}/M2", __name__, "mk_pruning", {"shape": shape, "M": 2}, kind="direct", timeout=900, group="pruning"))
        if ntips <= 3 or T:
            obs.append(Ob(f"pruning/{shape}/M4", __name__, "mk_pruning", {"shape": shape, "M": 4}, kind="direct", timeout=1800, group="pruning", optional=ntips > 3))
    for shape, M in [("cherry", 2), ("star3", 2), ("rooted3", 2), ("single_child", 2)] + ([("star4", 2), ("balanced4", 2), ("cherry", 4)] if T else []):
        obs.append(Ob(f"sum_to_one/{shape}/M{M}", __name__, "mk_sum_to_one", {"shape": shape, "M": M}, kind="direct", timeout=1200, group="normalisation"))
    for nb in ([2, 3, 4] if T else [2, 3]):
        obs.append(Ob(f"binned/n{nb}", __name__, "mk_binned", {"nbins": nb}, kind="direct", timeout=300, group="bins"))
    for mt in ("dna", "rna", "protein"):
        obs.append(Ob(f"leaf_profiles/{mt}", __name__, "mk_leaf_profiles", {"moltype_name": mt}, kind="direct", timeout=300, group="leaves"))
    for k in (2, 3):
        obs.append(Ob(f"leaf_profiles_words/k{k}", __name__, "mk_leaf_profiles_words", {"k": k}, kind="direct", timeout=900, group="leaves"))
    for n in ([2, 3, 4] if T else [2, 3]):
        obs.append(Ob(f"indexed/n{n}", __name__, "mk_indexed", {"n": n}, timeout=900, group="index"))
    return obs


def classify(name, args, cex, rep):
    return None
