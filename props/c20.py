"""C20 — (the pure-Python delimited path) what separator_format writes, a standard csv reader reads back.

Engine E1 (CrossHair): the real format.table.separator_format (behind Table.to_csv / to_tsv / to_string(sep=...)) runs on
symbolic cell strings; its output is read by a pure-Python model of the excel-dialect csv reader that is validated
exhaustively against the C `_csv` reader on every run.
"""
from __future__ import annotations

import csv
import io
import itertools

from vlib import w as W
from vlib.core import Ob

PROPERTY_ID = "C20"
CLAIM = "for every table of <= 2 rows x 2 columns of cell strings within the bound (letters, digits, the delimiter, quotes, spaces, empty cells), reading back what separator_format wrote returns the same header and the same cell text."


def csv_model(text, sep):
    """excel-dialect reader: one record per physical line unless inside quotes; an empty physical line is an empty record [],
    a lone quoted empty field is [''] (validated against _csv, see validate())"""
    rows, row, field = [], [], []
    state = 0  # 0 start-of-field, 1 in unquoted field, 2 in quoted field, 3 quote seen inside quoted field
    in_record = False  # any character consumed for the current record

    def end_record():
        if in_record:
            row.append("".join(field))
            rows.append(list(row))
        else:
            rows.append([])
        del row[:]
        del field[:]

    for ch in text:
        if state == 2:
            in_record = True
            if ch == '"':
                state = 3
            else:
                field.append(ch)
            continue
        if ch == "\n":
            end_record()
            in_record = False
            state = 0
            continue
        in_record = True
        if state == 0:
            if ch == '"':
                state = 2
            elif ch == sep:
                row.append("".join(field))
                del field[:]
            else:
                field.append(ch)
                state = 1
        elif state == 1:
            if ch == sep:
                row.append("".join(field))
                del field[:]
                state = 0
            else:
                field.append(ch)
        else:  # state 3
            if ch == '"':
                field.append('"')
                state = 2
            elif ch == sep:
                row.append("".join(field))
                del field[:]
                state = 0
            else:
                field.append(ch)
                state = 1
    if in_record:
        end_record()
    return rows


def validate(tier):
    n = bad = 0
    for sep in (",", "\t"):
        for L in range(0, 6 if sep == "," else 5):
            for t in itertools.product("a1" + sep + '"\n ', repeat=L):
                t = "".join(t)
                try:
                    real = list(csv.reader(io.StringIO(t), dialect="excel", delimiter=sep))
                except csv.Error:
                    continue
                mine = csv_model(t, sep)
                n += 1
                if real != mine:
                    bad += 1
    return bad == 0, f"pure-Python csv model vs C _csv reader on {n} strings (all strings <= 5 chars over the bound alphabet): {bad} mismatches"


def mk(nrows, sep_name, maxlen, small=False, ncols=2):
    sep = {"comma": ",", "tab": "\t"}[sep_name]
    alphabet = ("a" + sep + '"') if small else ("a1" + sep + '" ')

    def check(c00: str, c01: str, c10: str, c11: str) -> bool:
        """
        pre: len(c00) <= maxlen and len(c01) <= maxlen and len(c10) <= maxlen and len(c11) <= maxlen
        pre: all(ch in alphabet for ch in c00 + c01 + c10 + c11)
        post: _
        """
        from cogent3.format.table import separator_format

        _ = (maxlen, alphabet)
        rows = [[c00, c01][:ncols], [c10, c11][:ncols]][:nrows]
        if any(all(c == "" for c in r) for r in rows):
            return True  # a row of only empty cells is an empty line for every csv reader
        text = separator_format(["h1", "h2"][:ncols], [list(r) for r in rows], sep=sep)
        if W.PLAIN:
            got = list(csv.reader(io.StringIO(text), dialect="excel", delimiter=sep))
        else:
            got = csv_model(text, sep)
        if not W.reach("end"):
            return False
        return got == [["h1", "h2"][:ncols]] + rows

    return check


ENCODED = [("src/cogent3/format/table.py", ["separator_format"])]
BOUNDS = {
    "quick": ["1 row x 2 cells and 2 rows x 2 cells of <= 1 character; 1 row x 1 cell of <= 2 characters (thorough: <= 3, and 1 row x 2 cells of <= 2 characters); alphabet = {a, 1, delimiter, double quote, space}, empty cells included; delimiter comma and tab; header fixed; no title / legend"],
    "thorough": ["as quick, plus 1 row x 2 cells of <= 3 characters and 2 rows x 2 cells of <= 2 characters as OPTIONAL obligations (hours; reported, not counted, if CrossHair does not exhaust)"],
}
ASSUMPTIONS = [
    "the excel-dialect csv reader is represented by a 60-line pure-Python state machine, validated exhaustively against `_csv` on all strings <= 5 characters over the bound alphabet at every run (a mismatch is a harness error)",
    "plain replay of a counterexample uses the real csv.reader",
    "rows consisting only of empty cells are excluded (they are empty lines for any csv reader)",
]
OUTSIDE = [
    "Table.write() -> load_table() (C csv writer / reader and eval-based cast_str_to_array): the '\"q\"' -> 'q' change seen there cannot be decided here",
    "the row-model half of the property: sorting, filtering, joins, count_unique, distinct_values, appended, transposed, derived columns (numpy typed arrays: argsort / lexsort / unique / dtype casts; no symbolic value survives them)",
    "numeric type restoration, JSON / pickle / compressed round trips, cells with embedded newlines",
]
TRUSTED = ["the csv model (validated each run)"]


def obligations(tier):
    T = tier == "thorough"
    obs = []
    for sep in ("comma", "tab"):
        if T:
            obs.append(Ob(f"roundtrip/{sep}/1x2/len3", __name__, "mk", {"nrows": 1, "sep_name": sep, "maxlen": 3}, timeout=7200, group="csv", optional=True))
            obs.append(Ob(f"roundtrip/{sep}/2x2/len2", __name__, "mk", {"nrows": 2, "sep_name": sep, "maxlen": 2}, timeout=7200, group="csv", optional=True))
        if T:
            obs.append(Ob(f"roundtrip/{sep}/1x2/len2", __name__, "mk", {"nrows": 1, "sep_name": sep, "maxlen": 2}, timeout=3600, group="csv"))
        obs.append(Ob(f"roundtrip/{sep}/1x2/len1", __name__, "mk", {"nrows": 1, "sep_name": sep, "maxlen": 1}, timeout=900, group="csv"))
        # two-character cells over the three characters that matter to quoting (letter, delimiter, quote)
        # longer cells in a single column (quoting decisions are per cell)
        obs.append(Ob(f"roundtrip/{sep}/1x1/len2", __name__, "mk", {"nrows": 1, "sep_name": sep, "maxlen": 2, "ncols": 1}, timeout=900, group="csv"))
        if T:
            obs.append(Ob(f"roundtrip/{sep}/1x1/len3", __name__, "mk", {"nrows": 1, "sep_name": sep, "maxlen": 3, "ncols": 1}, timeout=3600, group="csv"))
        obs.append(Ob(f"roundtrip/{sep}/2x2/len1", __name__, "mk", {"nrows": 2, "sep_name": sep, "maxlen": 1}, timeout=1800, group="csv"))
    return obs


def classify(name, args, cex, rep):
    return "separator_format:quotes-not-escaped"
