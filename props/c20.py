"""C20 — (the pure-Python delimited path) what separator_format writes, a standard csv reader reads back.

Engine E1 (CrossHair): the real format.table.separator_format (behind Table.to_csv / to_tsv / to_string(sep=...)) runs on
symbolic cell strings; its output is read by a pure-Python model of the excel-dialect csv reader that is validated
exhaustively against the C `_csv` reader on every run.
"""
from __future__ import annotations

import csv
import io
import itertools

from vlib import w as W
from vlib.core import Ob

PROPERTY_ID = "C20"
ENGINE = 'E1 CrossHair 0.0.110 (z3) on the real code'
TECHNIQUE = 'CrossHair symbolic execution of the real separator_format on symbolic cell strings, read back by a csv reader model validated against _csv each run; and of the real Table row operations on 3-row tables with symbolic small-integer cells and symbolic structural arguments, ndarray.argsort replaced by a stub returning any solver-chosen permutation its contract allows'
CLAIM = "for every table of <= 2 rows x 2 columns of cell strings within the bound (letters, digits, the delimiter, quotes, spaces, empty cells), reading back what separator_format wrote returns the same header and the same cell text."


def csv_model(text, sep):
    """excel-dialect reader: one record per physical line unless inside quotes; an empty physical line is an empty record [],
    a lone quoted empty field is [''] (validated against _csv, see validate())"""
    rows, row, field = [], [], []
    state = 0  # 0 start-of-field, 1 in unquoted field, 2 in quoted field, 3 quote seen inside quoted field
    in_record = False  # any character consumed for the current record

    def end_record():
        if in_record:
            row.append("".join(field))
            rows.append(list(row))
        else:
            rows.append([])
        del row[:]
        del field[:]

    for ch in text:
        if state == 2:
            in_record = True
            if ch == '"':
                state = 3
            else:
                field.append(ch)
            continue
        if ch == "\n":
            end_record()
            in_record = False
            state = 0
            continue
        in_record = True
        if state == 0:
            if ch == '"':
                state = 2
            elif ch == sep:
                row.append("".join(field))
                del field[:]
            else:
                field.append(ch)
                state = 1
        elif state == 1:
            if ch == sep:
                row.append("".join(field))
                del field[:]
                state = 0
            else:
                field.append(ch)
        else:  # state 3
            if ch == '"':
                field.append('"')
                state = 2
            elif ch == sep:
                row.append("".join(field))
                del field[:]
                state = 0
            else:
                field.append(ch)
                state = 1
    if in_record:
        end_record()
    return rows


def validate(tier):
    n = bad = 0
    for sep in (",", "\t"):
        for L in range(0, 6 if sep == "," else 5):
            for t in itertools.product("a1" + sep + '"\n ', repeat=L):
                t = "".join(t)
                try:
                    real = list(csv.reader(io.StringIO(t), dialect="excel", delimiter=sep))
                except csv.Error:
                    continue
                mine = csv_model(t, sep)
                n += 1
                if real != mine:
                    bad += 1
    return bad == 0, f"pure-Python csv model vs C _csv reader on {n} strings (all strings <= 5 chars over the bound alphabet): {bad} mismatches"


def mk(nrows, sep_name, maxlen, small=False, ncols=2):
    sep = {"comma": ",", "tab": "\t"}[sep_name]
    alphabet = ("a" + sep + '"') if small else ("a1" + sep + '" ')

    def check(c00: str, c01: str, c10: str, c11: str) -> bool:
        """
        pre: len(c00) <= maxlen and len(c01) <= maxlen and len(c10) <= maxlen and len(c11) <= maxlen
        pre: all(ch in alphabet for ch in c00 + c01 + c10 + c11)
        post: _
        """
        from cogent3.format.table import separator_format

        _ = (maxlen, alphabet)
        rows = [[c00, c01][:ncols], [c10, c11][:ncols]][:nrows]
        if any(all(c == "" for c in r) for r in rows):
            return True  # a row of only empty cells is an empty line for every csv reader
        text = separator_format(["h1", "h2"][:ncols], [list(r) for r in rows], sep=sep)
        if W.PLAIN:
            got = list(csv.reader(io.StringIO(text), dialect="excel", delimiter=sep))
        else:
            got = csv_model(text, sep)
        if not W.reach("end"):
            return False
        return got == [["h1", "h2"][:ncols]] + rows

    return check


# ---------------------------------------------------------------- the list-of-rows model
_PERMS3 = list(itertools.permutations(range(3)))


def _install_argsort_contract(perm_choice):
    """numpy documents the order of equal keys only for kind='stable' (or 'mergesort'). Table.sorted hands a record array to
    ndarray.argsort (C level): the environment stub returns, for any other kind, a SOLVER-CHOSEN permutation among all those that
    sort the keys; with kind='stable' it returns the stable one. Everything else in cogent3.util.table sees the real numpy."""
    import types

    import numpy

    import cogent3.util.table as T

    real = numpy

    class Rec:
        def __init__(self, arr):
            self.arr = arr

        def argsort(self, axis=-1, kind=None, order=None):
            n = len(self.arr)
            if kind in ("stable", "mergesort"):
                return self.arr.argsort(kind="stable")
            keys = [tuple(self.arr[i].tolist()) for i in range(n)]
            valid = [p for p in itertools.permutations(range(n)) if all(keys[p[i]] <= keys[p[i + 1]] for i in range(n - 1))]
            return real.array(valid[perm_choice % len(valid)], dtype=int)

    shim = types.SimpleNamespace(**{k: getattr(real, k) for k in dir(real) if not k.startswith("__")})
    shim.rec = types.SimpleNamespace(**{k: getattr(real.rec, k) for k in dir(real.rec) if not k.startswith("__")})
    shim.rec.fromarrays = lambda *a, **kw: Rec(real.rec.fromarrays(*a, **kw))
    saved = T.numpy
    T.numpy = shim
    return lambda: setattr(T, "numpy", saved)


def mk_rowmodel(op):
    """3-row tables with SYMBOLIC small integer cells (all tie patterns) and symbolic structural arguments (which column, which
    column order, which of the sorting permutations numpy returns); the Table operation must give what the same operation gives
    on the plain list of rows."""

    # per operation: only the inputs it depends on are symbolic (upper bounds; 0 = fixed at 0)
    XM, YM, KM, PM = {
        "sorted_x": (2, 0, 0, 5), "sorted_x_rev": (2, 0, 0, 5), "sorted_xy": (1, 1, 0, 5), "sorted_x_yrev": (1, 1, 0, 5),
        "filtered": (2, 1, 0, 0), "count_distinct": (1, 1, 2, 0), "columns": (0, 0, 2, 5), "appended": (2, 0, 0, 0),
        "transposed": (2, 0, 2, 0), "new_column": (2, 1, 0, 0), "inner_join_natural": (2, 1, 0, 5), "inner_join_keys": (2, 1, 0, 5),
        "cross_join": (1, 0, 0, 5),
    }[op]
    X2M = 0 if op in ("inner_join_natural", "inner_join_keys", "cross_join", "appended") else XM  # joins: the third left row is fixed

    Y2M = YM if X2M else 0
    RADIX = [XM + 1, XM + 1, X2M + 1, YM + 1, YM + 1, Y2M + 1, KM + 1, PM + 1]
    TOTAL = 1
    for r_ in RADIX:
        TOTAL *= r_

    def decode(code):
        out = []
        for r_ in RADIX:
            out.append(code % r_)
            code //= r_
        return out

    def check(code: int) -> bool:
        """
        pre: 0 <= code < TOTAL
        post: _
        """
        from cogent3 import make_table

        _ = TOTAL
        if not W.PLAIN:
            from crosshair import deep_realize

            # cells go into typed numpy arrays at once: the input tuple is ONE mixed-radix symbolic integer, realised up front (CrossHair
            # forks on its value; the bounded space is exhausted with ~2 paths per value instead of ~150 for eight separate integers)
            code = deep_realize(code)
        from crosshair.tracers import NoTracing as _NT
        import contextlib as _cl

        with (_cl.nullcontext() if W.PLAIN else _NT()):  # everything below is concrete: run it untraced (W.concrete)
            return body(code)

    def body(code):
        from cogent3 import make_table

        x0, x1, x2, y0, y1, y2, k, perm = decode(code)
        H = ["id", "x", "y"]
        if op == "transposed":
            y0, y1, y2 = 7, 5, 6  # a selectable column needs distinct values
        rows = [["r0", x0, y0], ["r1", x1, y1], ["r2", x2, y2]]
        t = make_table(header=H, data=[list(r) for r in rows])
        L = lambda tab: [list(r) for r in tab.to_list()]
        ok = True
        if op.startswith("sorted"):
            restore = _install_argsort_contract(perm)
            try:
                if op == "sorted_x":
                    got, want = L(t.sorted(columns="x")), sorted(rows, key=lambda r: r[1])
                elif op == "sorted_x_rev":
                    got, want = L(t.sorted(reverse="x")), sorted(rows, key=lambda r: -r[1])
                elif op == "sorted_xy":
                    got, want = L(t.sorted(columns=["x", "y"])), sorted(rows, key=lambda r: (r[1], r[2]))
                else:
                    got, want = L(t.sorted(columns=["x", "y"], reverse=["y"])), sorted(rows, key=lambda r: (r[1], -r[2]))
            finally:
                restore()
            if len({x0, x1, x2}) < 3 and not W.reach("ties"):
                return False
            ok = got == want
        elif op == "filtered":
            ok = L(t.filtered(lambda v: v >= 1, columns="x")) == [r for r in rows if r[1] >= 1]
            ok = ok and L(t.filtered(lambda r: r[0] > r[1], columns=["x", "y"])) == [r for r in rows if r[1] > r[2]]
        elif op == "count_distinct":
            col = H[k]
            vals = [r[k] for r in rows]
            for indexed in (False, True):
                # an index column (index_name) must not leak into the answers about other columns
                tt = make_table(header=H, data=[list(r) for r in rows], index_name="id") if indexed else t
                cu = tt.count_unique(col)
                ok = ok and {key: cu[key] for key in cu} == {v: vals.count(v) for v in set(vals)} and set(tt.distinct_values(col)) == set(vals)
                pairs = tt.distinct_values(["x", "y"])
                ok = ok and {tuple(p) for p in pairs} == {(r[1], r[2]) for r in rows}
                cu2 = tt.count_unique(["x", "y"])
                ok = ok and {tuple(key): cu2[key] for key in cu2} == {(r[1], r[2]): [(q[1], q[2]) for q in rows].count((r[1], r[2])) for r in rows}
        elif op == "columns":
            c1, c2 = H[k], H[_PERMS3[perm][0]]
            if c1 != c2:
                sub = t.get_columns([c1, c2])
                ok = list(sub.header) == [c1, c2] and L(sub) == [[r[H.index(c1)], r[H.index(c2)]] for r in rows]
        elif op == "appended":
            t2 = make_table(header=H, data=[["r3", y0, x0]])
            ok = L(t.appended(None, t2)) == rows + [["r3", y0, x0]]
        elif op == "transposed":
            col = H[k]
            newh = [str(r[k]) for r in rows]
            if len(set(newh)) == 3:
                tr = t.transposed("new", select_as_header=col)
                others = [c for c in H if c != col]
                ok = list(tr.header) == ["new"] + newh and L(tr) == [[c] + [r[H.index(c)] for r in rows] for c in others]
                if not W.reach("transposed"):
                    return False
        elif op == "new_column":
            ok = L(t.with_new_column("z", lambda r: r[0] * 10 + r[1], columns=["x", "y"])) == [r + [r[1] * 10 + r[2]] for r in rows]
        elif op in ("inner_join_natural", "inner_join_keys", "cross_join"):
            a = make_table(header=["k", "j", "v"], data=[[x0, y0, 10], [x1, y1, 20], [x2, y2, 30]])
            bh = ["j", "k", "w"]
            brows = [{"k": 0, "j": 0, "w": 100}, {"k": 1, "j": 0, "w": 200}, {"k": 1, "j": 1, "w": 300}, {"k": 2, "j": 1, "w": 400}, {"k": 1, "j": 1, "w": 500}]
            order = [bh[i] for i in _PERMS3[perm]]  # the column ORDER of the second table is symbolic
            b = make_table(header=order, data=[[r[c] for c in order] for r in brows], title="B")
            arows = [{"k": x0, "j": y0, "v": 10}, {"k": x1, "j": y1, "v": 20}, {"k": x2, "j": y2, "v": 30}]
            if op == "inner_join_natural":
                j = a.inner_join(b, use_index=False)
                want = [[ra["k"], ra["j"], ra["v"], rb["w"]] for ra in arows for rb in brows if ra["k"] == rb["k"] and ra["j"] == rb["j"]]
                ok = list(j.header) == ["k", "j", "v", "right_w"] and L(j) == want
            elif op == "inner_join_keys":
                j = a.inner_join(b, columns_self="k", columns_other="k", use_index=False)
                rest = [c for c in order if c != "k"]
                want = [[ra["k"], ra["j"], ra["v"]] + [rb[c] for c in rest] for ra in arows for rb in brows if ra["k"] == rb["k"]]
                ok = list(j.header) == ["k", "j", "v"] + ["right_" + c for c in rest] and L(j) == want
            else:
                j = a.cross_join(b)
                want = [[ra["k"], ra["j"], ra["v"]] + [rb[c] for c in order] for ra in arows for rb in brows]
                ok = list(j.header) == ["k", "j", "v"] + ["right_" + c for c in order] and L(j) == want
        else:
            raise KeyError(op)
        if not W.reach("end"):
            return False
        return bool(ok)

    return check


ROW_OPS = ["sorted_x", "sorted_x_rev", "sorted_xy", "sorted_x_yrev", "filtered", "count_distinct", "columns", "appended", "transposed", "new_column",
           "inner_join_natural", "inner_join_keys", "cross_join"]


ENCODED = [("src/cogent3/format/table.py", ["separator_format"])]
BOUNDS = {
    "quick": ["1 row x 2 cells and 2 rows x 2 cells of <= 1 character; 1 row x 1 cell of <= 2 characters (thorough: <= 3, and 1 row x 2 cells of <= 2 characters); alphabet = {a, 1, delimiter, double quote, space}, empty cells included; delimiter comma and tab; header fixed; no title / legend"],
    "thorough": ["as quick, plus 1 row x 2 cells of <= 3 characters and 2 rows x 2 cells of <= 2 characters as OPTIONAL obligations (hours; reported, not counted, if CrossHair does not exhaust)"],
}
ASSUMPTIONS = [
    "the excel-dialect csv reader is represented by a 60-line pure-Python state machine, validated exhaustively against `_csv` on all strings <= 5 characters over the bound alphabet at every run (a mismatch is a harness error)",
    "plain replay of a counterexample uses the real csv.reader",
    "rows consisting only of empty cells are excluded (they are empty lines for any csv reader)",
]
OUTSIDE = [
    "Table.write() -> load_table() (C csv writer / reader and eval-based cast_str_to_array): the '\"q\"' -> 'q' change seen there cannot be decided here",
    "the row-model half of the property: sorting, filtering, joins, count_unique, distinct_values, appended, transposed, derived columns (numpy typed arrays: argsort / lexsort / unique / dtype casts; no symbolic value survives them)",
    "numeric type restoration, JSON / pickle / compressed round trips, cells with embedded newlines",
]
TRUSTED = ["the csv model (validated each run)"]


def obligations(tier):
    T = tier == "thorough"
    obs = []
    for sep in ("comma", "tab"):
        if T:
            obs.append(Ob(f"roundtrip/{sep}/1x2/len3", __name__, "mk", {"nrows": 1, "sep_name": sep, "maxlen": 3}, timeout=2400, group="csv", optional=True))
            obs.append(Ob(f"roundtrip/{sep}/2x2/len2", __name__, "mk", {"nrows": 2, "sep_name": sep, "maxlen": 2}, timeout=2400, group="csv", optional=True))
        if T:
            obs.append(Ob(f"roundtrip/{sep}/1x2/len2", __name__, "mk", {"nrows": 1, "sep_name": sep, "maxlen": 2}, timeout=3600, group="csv"))
        obs.append(Ob(f"roundtrip/{sep}/1x2/len1", __name__, "mk", {"nrows": 1, "sep_name": sep, "maxlen": 1}, timeout=900, group="csv"))
        # two-character cells over the three characters that matter to quoting (letter, delimiter, quote)
        # longer cells in a single column (quoting decisions are per cell)
        obs.append(Ob(f"roundtrip/{sep}/1x1/len2", __name__, "mk", {"nrows": 1, "sep_name": sep, "maxlen": 2, "ncols": 1}, timeout=900, group="csv"))
        if T:
            obs.append(Ob(f"roundtrip/{sep}/1x1/len3", __name__, "mk", {"nrows": 1, "sep_name": sep, "maxlen": 3, "ncols": 1}, timeout=3600, group="csv"))
        obs.append(Ob(f"roundtrip/{sep}/2x2/len1", __name__, "mk", {"nrows": 2, "sep_name": sep, "maxlen": 1}, timeout=1800, group="csv"))
    for op in ROW_OPS:
        tw = ("end",) + (("ties",) if op.startswith("sorted") else ()) + (("transposed",) if op == "transposed" else ())
        obs.append(Ob(f"rows/{op}", __name__, "mk_rowmodel", {"op": op}, timeout=1800, twins=tw, group="rows", grade="realised-input"))
    return obs


def classify(name, args, cex, rep):
    if name.startswith("rows/sorted"):
        return "Table.sorted:order-of-ties-left-to-unstable-argsort"
    if name == "rows/inner_join_natural":
        return "Table.inner_join:natural-join-pairs-keys-by-position"
    if name.startswith("rows/"):
        return None
    return "separator_format:quotes-not-escaped"
