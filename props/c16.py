"""C16 — nested-model initialisation and optimisation never lose likelihood.

Engine E2 (psx).
(a) projection exactness: the real _ParamProjection maps symbolic null-model parameters into the richer model; both models' real
    calcQ run on z3 Reals; z3 decides Q_rich == Q_null entrywise for ALL motif probabilities and ALL parameter values.
(b) wrapper monotonicity: the real maximise / limited_use / bounded_function / bounds_exception_catching_function run with an
    adversarial stub optimiser; function VALUES are symbolic reals (all orderings and ties are explored by forking).
"""
from __future__ import annotations

import copy
import time

import numpy
import z3

from props import c05
from vlib import psx
from vlib import w as W
from vlib.core import Ob

PROPERTY_ID = "C16"
ENGINE = "E2 psx"
TECHNIQUE = "real parameter-projection code and both models' calcQ executed on z3 Real terms, entrywise equality of rate matrices decided by z3 (QF_NRA); real optimiser wrappers executed with symbolic function values under an adversarial stub optimiser, every feasible ordering explored by solver-guided forking"
CLAIM = (
    "for every nested pair of nucleotide models within bounds, ALL motif probabilities and ALL null-model parameter values, the rate matrix of the richer model "
    "initialised through _ParamProjection equals the null model's rate matrix (so, with C02, the log-likelihoods are equal before optimisation); "
    "for every visiting sequence within bounds and ALL function values, maximise() leaves the best in-bounds point applied, returns it, and never returns a value below the start."
)

PAIRS = [
    ("JC69", "F81"), ("JC69", "K80"), ("JC69", "HKY85"), ("K80", "HKY85"), ("F81", "HKY85"), ("HKY85", "TN93"), ("F81", "TN93"),
    ("HKY85", "GTR"), ("TN93", "GTR"), ("F81", "GTR"), ("JC69", "GTR"),
    ("F81", "GN"), ("HKY85", "GN"), ("TN93", "GN"), ("GTR", "GN"), ("ssGN", "GN"), ("JC69", "GN"),
]


def mk_projection(simple, rich, const="none", _replay=None):
    from cogent3.evolve import likelihood_function as LF
    from cogent3.evolve import substitution_model as SM

    t0 = time.time()
    sm_s = c05._model(simple)
    sm_r = c05._model(rich)
    alpha = [str(m) for m in sm_s.get_alphabet()]
    N = len(alpha)
    same = (isinstance(sm_r, SM.Stationary) and isinstance(sm_s, SM.Stationary)) or (not isinstance(sm_r, SM.Stationary) and not isinstance(sm_s, SM.Stationary))
    fixed_pi = simple in ("JC69", "K80")  # equal motif probs are part of these models' definition

    def build(pi_vals, par_vals, wrap):
        pi = numpy.empty(N, dtype=object if wrap is not float else float)
        for i in range(N):
            pi[i] = pi_vals[i]
        proj = LF._ParamProjection(sm_s, sm_r, pi, same=same)
        # the rules as lf.get_param_rules() writes them: a free parameter carries init/lower/upper, a constant one value/is_constant
        null_order = [str(p) for p in sm_s.parameter_order]
        is_const = {p: (const == "all" or (const == "first" and i == 0)) for i, p in enumerate(null_order)}
        rules = []
        for p in null_order:
            if is_const[p]:
                rules.append(dict(par_name=p, value=par_vals[p], is_constant=True))
            else:
                rules.append(dict(par_name=p, init=par_vals[p], lower=1e-06, upper=1000000.0))
        shared = [dict(par_name="mprobs", value={a: pi[i] for i, a in enumerate(alpha)}, is_constant=True)]
        shared += [dict(par_name="length", edge=e, init=wrap(1), lower=0.0, upper=10.0) for e in ("a", "b", "c")]
        projected = proj.update_param_rules(rules + copy.deepcopy(shared))
        # the richer function's own rules (all free, at their defaults), then the real update_scoped_rules, as initialise_from_nested does
        rich_rules = [dict(par_name=str(p), init=wrap(1), lower=1e-06, upper=1000000.0) for p in sm_r.parameter_order] + copy.deepcopy(shared)
        new_rules = LF.update_scoped_rules(rich_rules, projected)
        rich_vals = {}
        for r in new_rules:
            if r["par_name"] in ("mprobs", "length"):
                continue
            rich_vals[r["par_name"]] = r["init"] if "init" in r else r["value"]
        args_r = [rich_vals.get(str(p), wrap(1)) for p in sm_r.parameter_order]
        unknown = [k for k in rich_vals if k not in [str(p) for p in sm_r.parameter_order] and k != "ref_cell"]
        w_s = sm_s.mprob_model.calc_word_probs(pi)
        m_s = sm_s.mprob_model.calc_word_weight_matrix(pi)
        w_r = sm_r.mprob_model.calc_word_probs(pi)
        m_r = sm_r.mprob_model.calc_word_weight_matrix(pi)
        Qs = sm_s.calcQ(w_s, m_s, *[par_vals[str(p)] for p in sm_s.parameter_order])
        Qr = sm_r.calcQ(w_r, m_r, *args_r)
        return Qs, Qr, unknown, rich_vals

    if _replay is not None:
        pv = [float(_replay[f"pi_{a}"]) for a in alpha]
        par = {str(p): float(_replay["par_" + str(p)]) for p in sm_s.parameter_order}
        Qs, Qr, unknown, rv = build(pv, par, float)
        bad = numpy.abs(numpy.array(Qs, float) - numpy.array(Qr, float)).max() > 1e-9 or bool(unknown)
        return {"status": "reproduced" if bad else "not_reproduced", "detail": f"max |Q_null - Q_rich| = {numpy.abs(numpy.array(Qs, float) - numpy.array(Qr, float)).max():.3g}; projected {rv}"}

    sm_s._instantaneous_mask_f = sm_s._instantaneous_mask_f.astype(object)
    sm_r._instantaneous_mask_f = sm_r._instantaneous_mask_f.astype(object)
    piv = [z3.Real(f"pi_{a}") for a in alpha]
    parv = {str(p): z3.Real("par_" + str(p)) for p in sm_s.parameter_order}
    A = [v > 0 for v in piv] + [z3.Sum(piv) == 1] + [v > 0 for v in parv.values()]
    if fixed_pi:
        A += [v == z3.RealVal(1) / N for v in piv]

    def run():
        return build([psx.SReal(v) for v in piv], {k: psx.SReal(v) for k, v in parv.items()}, psx.const)

    paths, stats = psx.explore(run, A)
    if len(paths) != 1 or paths[0].exc is not None:
        return {"status": "inconclusive", "detail": f"forked or raised: paths={len(paths)} {paths[0].exc!r}"}
    Qs, Qr, unknown, rich_vals = paths[0].result
    if not W.reach("end"):
        return {"status": "cex", "cex": {"twin": f"projected params: {sorted(rich_vals)}"}}
    if unknown:
        return {"status": "cex", "cex": dict({str(v): 0.25 for v in piv}, **{str(v): 2.0 for v in parv.values()}, problem=f"projection produced parameters the rich model does not have: {unknown}")}
    nq = 0
    for i in range(N):
        claim = z3.And(*[psx.term(Qs[i, j]) == psx.term(Qr[i, j]) for j in range(N)])
        r, m, dt = psx.check_valid(paths[0].assertions, claim, timeout_ms=300000)
        nq += 1
        if r == "sat":
            vals = {str(v): psx.model_float(m, v) for v in piv + list(parv.values())}
            return {"status": "cex", "cex": vals, "queries": nq, "detail": f"row {i} differs"}
        if r != "unsat":
            return {"status": "inconclusive", "detail": f"row {i}: z3 {r} after {dt:.0f}s"}
    return {"status": "holds", "paths": 1, "queries": nq, "detail": f"same={same} projected={sorted(rich_vals)}", "solver_s": round(time.time() - t0, 2)}


# ---------------------------------------------------------------- (b) optimiser wrappers
class _Stop(Exception):
    pass


SCENARIOS = {
    # name: (visit sequence of x labels, local flag, max_evaluations, raise-at step or None, returned label)
    "local_plain": ([1, 2, 3], True, None, None, 1),
    "local_returns_worst": ([1, 2, 3, 2], True, None, None, 3),
    "global_then_local": ([1, 2], None, None, None, 2),
    "limit_2": ([1, 2, 3], True, 2, None, 3),
    "limit_1": ([1, 2, 3], True, 1, None, 1),
    "out_of_bounds_visits": ([9, 1, -5, 2], True, None, None, 9),
    "optimiser_crashes": ([1, 2, 3], True, None, 2, 1),
    "revisit_start": ([0, 1, 0], True, None, None, 1),
    "global_only": ([3, 1], False, None, None, 1),
    # the simulated-annealing optimiser mutates ONE working vector in place between evaluations
    "inplace_walk": ([1, 2, 3], False, None, None, 3),
    "inplace_walk_limit": ([1, 2, 3, 2], False, 3, None, 3),
    "inplace_then_local": ([2, 1], None, None, None, 1),
}
INPLACE = {"inplace_walk", "inplace_walk_limit", "inplace_then_local"}


def mk_wrapper(scenario, _replay=None):
    import cogent3.maths.optimisers as O

    t0 = time.time()
    seq, local, max_ev, raise_at, ret = SCENARIOS[scenario]
    labels = sorted({0} | {x for x in seq if 0 <= x <= 5})
    fv = {x: z3.Real(f"f{x}") for x in labels}
    lo, hi = numpy.array([0.0]), numpy.array([5.0])

    def run(values, wrap):
        calls = []  # every call reaching the calculator (the innermost f), in order

        def f(x):
            calls.append(float(x[0]))
            return values[int(round(float(x[0])))]

        visited = []

        class Stub:
            def __init__(self, *a, **k):
                pass

            def maximise(self, fn, x, **kw):
                work = numpy.array(x, float)  # the optimiser's own working vector
                for step, lab in enumerate(seq if not Stub.used else seq[::-1]):
                    if raise_at is not None and step == raise_at:
                        raise _Stop("optimiser crashed")
                    if scenario in INPLACE:
                        work[0] = float(lab)  # modified in place and handed to f again, as the annealer does
                        xv = work
                    else:
                        xv = numpy.array([float(lab)])
                    visited.append((lab, fn(xv)))
                Stub.used = True
                return numpy.array([float(ret)])

        Stub.used = False
        g, l = O.GlobalOptimiser, O.LocalOptimiser
        O.GlobalOptimiser, O.LocalOptimiser = Stub, Stub
        err = None
        out = None
        try:
            out = O.maximise(f, numpy.array([0.0]), bounds=(lo, hi), local=local, max_evaluations=max_ev, show_progress=False)
        except (_Stop, O.MaximumEvaluationsReached) as e:
            err = e
        finally:
            O.GlobalOptimiser, O.LocalOptimiser = g, l
        return out, err, calls, visited

    if _replay is not None:
        vals = {x: float(_replay[f"f{x}"]) for x in labels}
        out, err, calls, visited = run(vals, float)
        best = max(vals[int(c)] for c in calls)
        bad = []
        if vals[int(calls[-1])] != best:
            bad.append(f"calculator left at x={calls[-1]} f={vals[int(calls[-1])]}, best visited f={best}")
        if out is not None and vals[int(out[0] if numpy.ndim(out) else out)] < vals[0]:
            bad.append("returned value below start")
        if out is not None and vals[int(out[0] if numpy.ndim(out) else out)] != best:
            bad.append("returned point is not the best visited")
        return {"status": "reproduced" if bad else "not_reproduced", "detail": "; ".join(bad)}

    A = []

    def srun():
        return run({x: psx.SRealU(v) for x, v in fv.items()}, None)

    paths, stats = psx.explore(srun, A, max_paths=5000)
    if not W.reach("end"):
        return {"status": "cex" if any(p.exc is None for p in paths) else "inconclusive", "cex": {"twin": f"{len(paths)} orderings"}}
    nq = stats["queries"]
    for p in paths:
        if p.exc is not None:
            s = z3.Solver()
            s.add(*p.assertions)
            s.check()
            return {"status": "cex", "cex": dict({f"f{x}": psx.model_float(s.model(), v) for x, v in fv.items()}, raised=repr(p.exc))}
        out, err, calls, visited = p.result
        claims = []
        # every call that reached the calculator is inside the bounds
        if any(not (0.0 <= c <= 5.0) for c in calls):
            claims.append(z3.BoolVal(False))
        inb = [c for c in calls if 0.0 <= c <= 5.0]
        last = int(calls[-1])
        # the calculator is left at a best visited point
        claims += [fv[last] >= fv[int(c)] for c in inb]
        if err is None:
            r = int(out[0]) if numpy.ndim(out) else int(out)
            if not (0 <= r <= 5) or r not in fv:
                claims.append(z3.BoolVal(False))
            else:
                claims.append(fv[r] >= fv[0])
                claims += [fv[r] >= fv[int(c)] for c in inb]
                claims.append(z3.BoolVal(r == last))
        if max_ev is not None and len([c for c in calls]) > max_ev + 1:
            claims.append(z3.BoolVal(False))  # at most max_evaluations evaluations + the final re-application
        r_, m, dt = psx.check_valid(p.assertions, z3.And(*claims) if claims else z3.BoolVal(True))
        nq += 1
        if r_ == "sat":
            return {"status": "cex", "cex": {f"f{x}": psx.model_float(m, v) for x, v in fv.items()}, "queries": nq}
        if r_ != "unsat":
            return {"status": "inconclusive", "detail": f"z3 {r_}"}
    return {"status": "holds", "paths": stats["paths"], "queries": nq, "detail": f"{len(labels)} points, {stats['paths']} orderings of their values", "solver_s": round(time.time() - t0, 2)}


# ---------------------------------------------------------------- (c) the hypothesis / model app: the alternate is complete before it is initialised
def mk_configure_order():
    """app.evo.model._configure_lf builds the likelihood function of one model of a hypothesis: default rules with bounds, the user's
    param_rules, optional time-heterogeneity, and finally the `initialise` callback (hypothesis / model_collection pass
    initialise_from_nested(null) there). Nested initialisation requires the alternate to be FULLY specified when the callback runs -
    otherwise it is not yet richer than the null, the initialisation is refused and the alternate starts from defaults. The real
    method runs on a recording stub function (CrossHair; which options are set is symbolic): every user rule and the
    time-heterogeneity are applied before the callback, and nothing is applied after it."""

    def check(has_rules: bool, time_het: int, has_init: bool) -> bool:
        """
        pre: 0 <= time_het <= 2
        post: _
        """
        from cogent3.app import evo as EVO

        log = []

        class LF:
            def set_alignment(self, aln):
                log.append("alignment")

            def get_param_rules(self):
                return [dict(par_name="kappa", init=1.0)]

            def apply_param_rules(self, rules):
                log.append("user_rules" if any(r.get("marker") for r in rules) else "default_rules")

            def optimise(self, **kw):
                log.append("optimise")

            def set_time_heterogeneity(self, **kw):
                log.append("time_het")

        class SM:
            def make_likelihood_function(self, tree, **kw):
                return LF()

        m = object.__new__(EVO.model)
        m._sm, m._tree, m._lf_args, m._lower, m._upper = SM(), None, {}, 1e-6, 1e6
        m._param_rules = [dict(par_name="kappa", edges=["a"], marker=True)] if has_rules else None
        m._time_het = [None, "max", [dict(edges=["a", "b"])]][time_het]
        m._opt_args, m._verbose = {}, False

        def init(lf, identifier):
            log.append("init")
            return lf

        m._configure_lf("aln", "id", initialise=init if has_init else None)
        if not W.reach("end"):
            return False
        if has_init:
            if not W.reach("init"):
                return False
            if log[-1] != "init":
                return False  # something was applied after the alternate had been initialised from the null
            if has_rules and "user_rules" not in log[: log.index("init")]:
                return False
            if time_het and "time_het" not in log[: log.index("init")]:
                return False
        if has_rules and "user_rules" not in log:
            return False
        return log[0] == "alignment" and "default_rules" in log

    return check


ENCODED = [
    ("src/cogent3/app/evo.py", ["model._configure_lf", "_config_rules"]),
    ("src/cogent3/evolve/likelihood_function.py", ["_get_param_mapping", "_ParamProjection.__init__", "_ParamProjection._set_ref_val", "_ParamProjection._rate_same", "_ParamProjection._rate_not_same", "update_scoped_rules", "update_rule_value", "extend_rule_value", "_get_keyed_rule_indices", "_ParamProjection.update_param_rules"]),
    ("src/cogent3/evolve/substitution_model.py", ["get_param_matrix_coords", "get_reference_cell", "calcQ (both classes)", "Parametric.calc_exchangeability_matrix"]),
    ("src/cogent3/maths/optimisers.py", ["maximise", "limited_use", "bounded_function", "bounds_exception_catching_function"]),
]
BOUNDS = {
    "quick": [f"{len(PAIRS)} ordered nested pairs of nucleotide models (JC69, K80, F81, HKY85, TN93, GTR, ssGN, GN)", "each pair with the nested function's rate parameters all free, the first one held constant, and all held constant (rules in the format get_param_rules writes); the richer function's rules all free; tree of three edges", "all motif probabilities > 0 summing to 1 (fixed at 1/4 for JC69/K80 as their definition requires) and all null parameters > 0: unbounded reals",
              f"{len(SCENARIOS)} optimiser scenarios: <= 4 evaluations of <= 5 distinct in-bounds points + out-of-bounds points; evaluation limit in {{None,1,2}}; optimiser crash; ALL function values (symbolic reals, ties included)"],
}
BOUNDS["thorough"] = BOUNDS["quick"]
ASSUMPTIONS = [
    "exact real arithmetic stands in for floats",
    "rule plumbing around the projection (update_scoped_rules, apply_param_rules, the recalculation graph) is outside: the projected values are read straight from update_param_rules' output and rich parameters without a projected value keep the default 1.0, as apply_param_rules leaves them",
    "GlobalOptimiser / LocalOptimiser replaced by an adversarial stub that visits a fixed sequence of points, may crash, and returns an arbitrary visited point",
    "one-dimensional x with concrete labels; function values are arbitrary reals (finite)",
]
OUTSIDE = ["Powell / simulated annealing themselves", "scope.optimise / Calculator.optimise plumbing", "hypothesis_result.LR", "NaN / infinite function values", "codon and dinucleotide nested pairs", "per-edge scoped rules (update_scoped_rules)"]
TRUSTED = ["vlib/psx.py"]


def obligations(tier):
    obs = []
    for s, r in PAIRS:
        obs.append(Ob(f"projection/{s}->{r}", __name__, "mk_projection", {"simple": s, "rich": r}, kind="direct", timeout=1200, group="projection"))
        if c05._model(s).parameter_order:
            # the nested function holds its first / all rate parameters constant (set_param_rule(..., is_constant=True, value=...))
            obs.append(Ob(f"projection/{s}->{r}/const-first", __name__, "mk_projection", {"simple": s, "rich": r, "const": "first"}, kind="direct", timeout=1200, group="projection"))
            obs.append(Ob(f"projection/{s}->{r}/const-all", __name__, "mk_projection", {"simple": s, "rich": r, "const": "all"}, kind="direct", timeout=1200, group="projection"))
    for sc in SCENARIOS:
        obs.append(Ob(f"wrapper/{sc}", __name__, "mk_wrapper", {"scenario": sc}, kind="direct", timeout=900, group="wrapper"))
    obs.append(Ob("configure_order", __name__, "mk_configure_order", {}, kind="crosshair", timeout=600, twins=("end", "init"), group="app"))
    return obs


def classify(name, args, cex, rep):
    if name.startswith("projection/"):
        return f"projection:{args['simple']}->{args['rich']}"
    return None
