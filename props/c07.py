"""C07 — incrementally recalculated values equal a fresh calculation (Calculator layer).

Engine E1 (CrossHair): the real recalculation.calculation.Calculator (double-buffered cell values, one-deep undo,
recycled result buffers, consequence programs) is driven through a bounded history of parameter changes whose VALUES are
symbolic integers; which parameters change at each step (and whether a step exactly reverts the previous one) is the shard key.
"""
from __future__ import annotations

from vlib import w as W
from vlib.core import Ob

PROPERTY_ID = "C07"
ENGINE = 'E1 CrossHair 0.0.110 (z3) on the real code'
TECHNIQUE = 'CrossHair symbolic execution of the real Calculator over operation histories (shard key) with symbolic integer parameter values: after every step the incremental value equals a fresh evaluation; exact reverts and bounds rejections are path conditions decided by z3'
CLAIM = (
    "for every history of <= 3 changes (each changing any subset of 3 parameters, or exactly reverting the previous step) with ALL parameter values, on a graph with a diamond, a shared argument, "
    "a recycled-buffer cell and a cell that rejects out-of-bounds input: after every step the value returned by the Calculator and testfunction() equal a from-scratch evaluation of the current vector, "
    "and a rejected step leaves the Calculator consistent (its reported vector is one of the last two accepted vectors and its reported value is the fresh value of that vector)."
)


def setup_symbolic():
    import types

    import cogent3.recalculation.calculation as C

    C.time = types.SimpleNamespace(time=lambda: 0.0)  # timing instrumentation only: keeps symbolic floats out of the path condition


def build(with_undo=True):
    from cogent3.maths.optimisers import ParameterOutOfBoundsError
    from cogent3.recalculation.calculation import Calculator, ConstCell, EvaluatedCell, OptPar

    a = OptPar("a", (), (-1000, 1, 1000))
    b = OptPar("b", (), (-1000, 1, 1000))
    c = OptPar("c", (), (-1000, 1, 1000))
    k = ConstCell("k", 3)
    s1 = EvaluatedCell("s1", lambda x, y: x + 2 * y, (a, b))

    def guard(y, z, kk):
        v = y - z + kk
        if v < 0:
            raise ParameterOutOfBoundsError("negative")
        return v

    s2 = EvaluatedCell("s2", guard, (b, c, k))

    def recycled(buf, x):
        if buf is None:
            buf = [0]
        buf[0] = 3 * x  # mutates and returns its own buffer, like the array-recycling likelihood cells
        return buf

    r = EvaluatedCell("r", recycled, (s1,), recycling=True)
    top = EvaluatedCell("top", lambda u, v, x: 5 * u[0] + 7 * v + x, (r, s2, a))
    cells = [a, b, c, k, s1, s2, r, top]
    return Calculator(cells, {}, with_undo=with_undo)


def fresh(x):
    a, b, c = x
    v = b - c + 3
    if v < 0:
        return None
    return 5 * (3 * (a + 2 * b)) + 7 * v + a


def mk(steps, with_undo=True):
    """steps: tuple of strings over 'a','b','c' (parameters that receive a new symbolic value) or 'R' (revert previous step exactly)"""

    def check(v1: int, w1: int, u1: int, v2: int, w2: int, u2: int, v3: int, w3: int, u3: int) -> bool:
        """
        pre: -1000 < v1 < 1000 and -1000 < w1 < 1000 and -1000 < u1 < 1000
        pre: -1000 < v2 < 1000 and -1000 < w2 < 1000 and -1000 < u2 < 1000
        pre: -1000 < v3 < 1000 and -1000 < w3 < 1000 and -1000 < u3 < 1000
        post: _
        """
        from cogent3.maths.optimisers import ParameterOutOfBoundsError

        _ = with_undo
        calc = build(with_undo)
        # integers from the start so no float enters the symbolic arithmetic
        # two concrete integer vectors first, so neither the current values nor the one-deep undo record hold the float defaults
        for cur in ([4, 6, 5], [7, 8, 6]):
            got = calc.testoptparvector(list(cur))
            if got != fresh(cur):
                return False
        prev = [4, 6, 5]
        vals = [(v1, w1, u1), (v2, w2, u2), (v3, w3, u3)]
        rejected = 0
        for st, (v, w, u) in zip(steps, vals):
            if st == "R":
                if prev is None:
                    return True
                new = list(prev)
            else:
                new = list(cur)
                for ch, val in zip("abc", (v, w, u)):
                    if ch in st:
                        new["abc".index(ch)] = val
            want = fresh(new)
            try:
                got = calc.testoptparvector(list(new))
            except ParameterOutOfBoundsError:
                if want is not None:
                    return False
                rejected += 1
                # a rejected step must leave the calculator CONSISTENT: the vector it reports is one of the last two accepted
                # vectors (its one-deep undo may have been consumed) and the reported value is the fresh value of that vector
                state = [x for x in calc.get_value_array()]
                if state != cur and (prev is None or state != prev):
                    return False
                if calc.testfunction() != fresh(state):
                    return False
                if state != cur:
                    cur, prev = state, None
                continue
            if want is None:
                return False
            prev = list(cur)
            cur = new
            if got != want or calc.testfunction() != want:
                return False
            if [x for x in calc.get_value_array()] != cur:
                return False
        if not W.reach("end"):
            return False
        if rejected and not W.reach("rejected"):
            return False
        return True

    return check


ENCODED = [("src/cogent3/recalculation/calculation.py", ["Calculator.__init__", "Calculator.testoptparvector", "Calculator.change", "Calculator.cells_changed_by", "Calculator.plain_update", "Calculator.testfunction",
                                                          "Calculator.get_value_array", "EvaluatedCell.__init__/prime/update", "OptPar", "ConstCell"])]
_H2 = [(x, y) for x in ("a", "b", "c", "ab", "bc", "abc") for y in ("a", "b", "c", "ab", "abc", "R")]
_H3 = [("a", "R", "a"), ("ab", "R", "b"), ("a", "b", "R"), ("abc", "a", "R"), ("a", "R", "R"), ("b", "a", "b"), ("c", "R", "c"), ("bc", "R", "abc"), ("abc", "R", "abc"), ("b", "c", "R")]
BOUNDS = {
    "quick": [f"{len(_H2)} two-step and {len(_H3)} three-step histories (which parameters change per step / exact revert = shard key); all new values symbolic integers in (-1000, 1000)",
              "graph: 3 OptPars, 1 constant, 4 evaluated cells (shared argument, diamond, recycled-buffer cell, bounds-rejecting cell); with_undo=True (the only mode any caller in the library uses)"],
}
BOUNDS["thorough"] = BOUNDS["quick"]
ASSUMPTIONS = [
    "parameter values are integers (cell functions are linear, so no float rounding question arises); the first vector is concrete so that no float default enters later arithmetic",
    "cell calc functions are the small synthetic ones in props/c07.py; the Calculator machinery is the real one",
    "calculation.time (elapsed-time bookkeeping) is stubbed to a constant",
]
OUTSIDE = ["Calculator(with_undo=False): no caller in the library passes it; in that mode a rejected step leaves cell values half-updated (seen by the solver, not reported: unreachable through the public API)", "the definition layer (scope.py dirty set, updates_postponed, assign_all)", "rule export / import and number of free parameters", "real likelihood functions (numpy / numba / float on a dynamic object graph)", "histories longer than 3 steps"]
TRUSTED = ["the from-scratch formula fresh() in props/c07.py"]


def _twins(h):
    # the bounds-rejecting cell depends on b and c only
    return ("end", "rejected") if any(st != "R" and ("b" in st or "c" in st) for st in h) else ("end",)


def obligations(tier):
    obs = []
    for h in _H2:
        obs.append(Ob("history/" + "-".join(h), __name__, "mk", {"steps": list(h)}, timeout=900, twins=_twins(h), group="k2"))
    for h in _H3:
        obs.append(Ob("history/" + "-".join(h), __name__, "mk", {"steps": list(h)}, timeout=1200, twins=_twins(h), group="k3"))
    # the ParameterController layer (own module: no priming / time stubs of this module are needed there)
    obs.append(Ob("scope_history/steps1", "props.c07_scope", "mk_history", {"nsteps": 1}, timeout=900, twins=("end", "postponed"), group="scope", grade="realised-input"))
    T = tier == "thorough"
    for m in range(1, 8):
        obs.append(Ob(f"scope_history/steps2/first{m:03b}", "props.c07_scope", "mk_history", {"nsteps": 2, "nvalues": 3 if T else 2, "first_independent": T, "first_mask": m}, timeout=3600, twins=("end", "postponed"), group="scope", grade="realised-input"))
    return obs


def classify(name, args, cex, rep):
    return None
