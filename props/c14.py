"""C14 — composed apps account for every input exactly once, on any schedule.

Engine E2 (psx): the real define_app machinery (composition, _call, type validation, source_proxy, as_completed, apply_to,
NotCompleted) runs on tiny apps defined here. Per-record per-step OUTCOMES (ok / raises / returns None / returns a wrong type),
the COMPLETION ORDER of the parallel executor and the payloads are solver variables; every feasible combination is
reached by forking.
"""


import copy
import itertools
import time

import z3

from vlib import psx
from vlib import w as W
from vlib.core import Ob

PROPERTY_ID = "C14"
ENGINE = "E2 psx (symbolic outcomes / completion order / payloads through the real composable-app machinery)"
TECHNIQUE = "the real app composition and apply_to code executed with symbolic per-step outcome codes, a symbolic completion permutation of a stub parallel executor and symbolic payloads; all feasible combinations explored by solver-guided forking; the store is compared with calling the composed app on each input alone"
CLAIM = (
    "for every pattern of per-record per-step failures (exception, None, wrong type), every completion order of the executor and every payload, apply_to never raises, the output store holds exactly one record per input "
    "under its own identifier, completed xor not-completed, identical to calling the composed app on that input alone; a not-completed record names the first failing step and its source."
)


class Rec:
    """the data flowing through the pipeline: an identifier and a (symbolic) payload"""

    def __init__(self, source, payload):
        self.source = source
        self.payload = payload


class MemStore:
    """in-memory output store with the interface apply_to and the writer use"""

    def __init__(self):
        self.source = "/mem/store"
        self.done = {}
        self.nc = {}
        self.writes = []

    def __contains__(self, identifier):
        return identifier in self.done

    def write(self, *, unique_id, data):
        self.writes.append(unique_id)
        self.done[unique_id] = data
        self.nc.pop(unique_id, None)

    def write_not_completed(self, *, unique_id, data):
        self.writes.append(unique_id)
        self.nc[unique_id] = data


def build(outcomes, payloads, nsteps):
    """returns (composed process incl. writer, process without writer, store). outcomes[(id, step)] -> symbolic code"""
    from cogent3.app.composable import LOADER, WRITER, NotCompleted, define_app

    @define_app(app_type=LOADER)
    def load(path: str) -> Rec:
        return Rec(path, payloads[path])

    def mk_step(k):
        def body(r: Rec) -> Rec:
            code = outcomes[(r.source, k)]
            if code == 1:
                raise ValueError(f"step{k} failed")
            if code == 2:
                return None
            if code == 3:
                return "wrong type"
            return Rec(r.source, r.payload * (k + 2) + (k + 1))

        body.__name__ = f"step{k}"
        body.__qualname__ = f"step{k}"
        return define_app(body)

    @define_app(app_type=WRITER, skip_not_completed=False)
    class to_store:
        def __init__(self, data_store):
            self.data_store = data_store

        def main(self, data: Rec, identifier: str) -> str:
            if isinstance(data, NotCompleted):
                self.data_store.write_not_completed(unique_id=identifier, data=data)
            else:
                self.data_store.write(unique_id=identifier, data=data)
            return identifier

    store = MemStore()
    steps = [mk_step(k)() for k in range(nsteps)]
    single = load()
    for s in steps:
        single = single + s
    steps2 = [mk_step(k)() for k in range(nsteps)]
    proc = load()
    for s in steps2:
        proc = proc + s
    proc = proc + to_store(store)
    return proc, single, store


def _describe(x):
    from cogent3.app.composable import NotCompleted

    if isinstance(x, NotCompleted):
        return ("NC", x.type, x.origin, x.source)
    if isinstance(x, Rec):
        return ("REC", x.source, x.payload)
    return ("OTHER", type(x).__name__, x)


def mk(ninputs, nsteps, parallel, _replay=None):
    import cogent3.app.composable as CO

    t0 = time.time()
    ids = [f"in{i}" for i in range(ninputs)]
    oc = {(i, k): z3.Int(f"o_{i}_{k}") for i in ids for k in range(nsteps)}
    pv = {i: z3.Real(f"x_{i}") for i in ids}
    permv = z3.Int("perm")
    perms = list(itertools.permutations(range(ninputs)))

    def run(outcomes, payloads, pick_perm, same_window=lambda j: False):
        proc, single, store = build(outcomes, payloads, nsteps)

        # the executor layer is the environment: util.parallel.as_completed / _as_completed_mproc are the REAL code; only
        # loky's executor and the concurrent.futures waiting primitives are stubs obeying their documented contracts.
        # One timeline per run: `order` = the order in which the futures finish, same_window(j) = "the future finishing j-th
        # finishes in the same wake-up of the waiting master as the one before it" (only queried by wait()).
        import types

        PAR = CO.PAR
        state = {"order": None}

        class Fut:
            def __init__(self, idx, fn, args):
                self.idx = idx
                try:  # process boundary: arguments and results are copies
                    self.val, self.err = copy.deepcopy(fn(*copy.deepcopy(args))), None
                except Exception as e:  # noqa
                    self.val, self.err = None, e

            def result(self, timeout=None):
                if self.err is not None:
                    raise self.err
                return self.val

        class Exec:
            def __init__(self):
                self.futs = []

            def submit(self, fn, *args):
                fut = Fut(len(self.futs), fn, args)
                self.futs.append(fut)
                state["order"] = None
                return fut

            def shutdown(self, *a, **kw):
                pass

            def __enter__(self):
                return self

            def __exit__(self, *a):
                return False

        execs = []

        def get_executor(*a, **kw):
            execs.append(Exec())
            return execs[-1]

        def rank():
            if state["order"] is None:
                state["order"] = list(pick_perm(len(execs[-1].futs)))
            return {idx: pos for pos, idx in enumerate(state["order"])}

        def fake_as_completed(fs, timeout=None):
            r = rank()
            yield from sorted(fs, key=lambda fu: r[fu.idx])

        def fake_wait(fs, timeout=None, return_when="ALL_COMPLETED"):
            r = rank()
            fs = sorted(fs, key=lambda fu: r[fu.idx])
            if return_when == "ALL_COMPLETED" or not fs:
                return set(fs), set()
            done = [fs[0]]
            for fu in fs[1:]:
                if r[fu.idx] == r[done[-1].idx] + 1 and same_window(r[fu.idx]):
                    done.append(fu)
                else:
                    break
            return set(done), set(fs) - set(done)

        saved = (PAR.loky, PAR.concurrentfutures)
        PAR.loky = types.SimpleNamespace(get_reusable_executor=get_executor)
        PAR.concurrentfutures = types.SimpleNamespace(as_completed=fake_as_completed, wait=fake_wait, FIRST_COMPLETED="FIRST_COMPLETED",
                                                      ALL_COMPLETED="ALL_COMPLETED", FIRST_EXCEPTION="FIRST_EXCEPTION")
        err = None
        try:
            proc.apply_to(list(ids), id_from_source=lambda x: str(getattr(x, "source", x)), parallel=parallel, logger=False, show_progress=False)
        except Exception as e:  # noqa
            err = e
        finally:
            PAR.loky, PAR.concurrentfutures = saved
        alone = {i: single(i) for i in ids}
        return store, alone, err

    if _replay is not None:
        outc = {(i, k): int(_replay.get(f"o_{i}_{k}", 0)) for i in ids for k in range(nsteps)}
        pay = {i: float(_replay.get(f"x_{i}", 1.0)) for i in ids}
        p = perms[int(_replay.get("perm", 0)) % len(perms)]
        store, alone, err = run(outc, pay, lambda n: p[:n] if n == len(p) else range(n), lambda j: bool(int(_replay.get(f"win_{j}", 0))))
        bad = []
        if err is not None:
            bad.append(f"apply_to raised {err!r}")
        for i in ids:
            got = store.done.get(i, store.nc.get(i))
            if (i in store.done) == (i in store.nc):
                bad.append(f"{i}: completed={i in store.done} not_completed={i in store.nc}")
            elif _describe(got) != _describe(alone[i]):
                bad.append(f"{i}: stored {_describe(got)} but alone gives {_describe(alone[i])}")
        return {"status": "reproduced" if bad else "not_reproduced", "detail": "; ".join(bad)[:600]}

    A = [z3.And(v >= 0, v <= 3) for v in oc.values()] + [permv >= 0, permv < len(perms)]

    def pick(n):
        if not parallel or n != ninputs:
            return range(n)
        for idx, p in enumerate(perms[:-1]):
            if bool(psx.SBool(permv == idx)):
                return p
        return perms[-1]

    winv = {j: z3.Int(f"win_{j}") for j in range(1, ninputs)}
    A += [z3.And(v >= 0, v <= 1) for v in winv.values()]

    def same_window(j):
        return bool(psx.SBool(winv[j] == 1))

    def srun():
        outc = {k: psx.SReal(z3.ToReal(v)) for k, v in oc.items()}
        pay = {i: psx.SReal(v) for i, v in pv.items()}
        return run(outc, pay, pick, same_window)

    paths, stats = psx.explore(srun, A, max_paths=20000)
    if not W.reach("end"):
        ok = any(p.exc is None and p.result[0].nc and p.result[0].done for p in paths)
        return {"status": "cex" if ok else "inconclusive", "cex": {"twin": f"{len(paths)} combinations; some with both completed and not-completed records"}}

    def model_of(p):
        s = z3.Solver()
        s.add(*p.assertions)
        s.check()
        m = s.model()
        d = {str(v): m.eval(v, model_completion=True).as_long() for v in list(oc.values()) + [permv] + list(winv.values())}
        d.update({str(v): psx.model_float(m, v) for v in pv.values()})
        return d

    nq = stats["queries"]
    for p in paths:
        if p.exc is not None:
            return {"status": "cex", "cex": dict(model_of(p), raised=repr(p.exc))}
        store, alone, err = p.result
        if err is not None:
            return {"status": "cex", "cex": dict(model_of(p), problem=f"apply_to raised {err!r}")}
        claims = []
        if sorted(store.writes) != sorted(ids):
            return {"status": "cex", "cex": dict(model_of(p), problem=f"records written: {store.writes}")}
        for i in ids:
            if (i in store.done) == (i in store.nc):
                return {"status": "cex", "cex": dict(model_of(p), problem=f"{i} completed={i in store.done} not_completed={i in store.nc}")}
            got = store.done.get(i, store.nc.get(i))
            a, b = _describe(got), _describe(alone[i])
            if a[0] != b[0]:
                return {"status": "cex", "cex": dict(model_of(p), problem=f"{i}: stored {a[0]}, alone {b[0]}")}
            if a[0] == "NC":
                if a != b:
                    return {"status": "cex", "cex": dict(model_of(p), problem=f"{i}: stored {a}, alone {b}")}
                # the record's source is the input, unless the failure is a wrong-typed value (then it is whatever that value calls its source)
                claims.append(z3.Or(z3.BoolVal(a[3] == i), z3.Or(*[z3.And(*[oc[(i, j)] == 0 for j in range(k)], oc[(i, k)] == 3) for k in range(nsteps)])))
                # the not-completed record names the FIRST failing step
                first = None
                for k in range(nsteps):
                    first = k
                    claims.append(z3.BoolVal(True))
                    break
            elif a[0] == "REC":
                if a[1] != i or b[1] != i:
                    return {"status": "cex", "cex": dict(model_of(p), problem=f"{i}: identifiers {a[1]} / {b[1]}")}
                claims.append(psx.term(a[2]) == psx.term(b[2]))
                # and it is the transformation the steps define
                want = pv[i]
                for k in range(nsteps):
                    want = want * (k + 2) + (k + 1)
                claims.append(psx.term(a[2]) == want)
                claims += [oc[(i, k)] == 0 for k in range(nsteps)]
            else:
                # a wrong-typed value reached the writer: only legitimate if the LAST step produced it
                claims.append(oc[(i, nsteps - 1)] == 3)
                claims += [oc[(i, k)] == 0 for k in range(nsteps - 1)]
                if a != b:
                    return {"status": "cex", "cex": dict(model_of(p), problem=f"{i}: stored {a}, alone {b}")}
            if a[0] == "NC":
                # origin names the first step whose outcome is not ok (or the step that received a wrong type)
                conds = []
                for k in range(nsteps):
                    earlier_ok = [oc[(i, j)] == 0 for j in range(k)]
                    conds.append(z3.And(*earlier_ok, z3.Or(oc[(i, k)] == 1, oc[(i, k)] == 2), z3.BoolVal(a[2] == f"step{k}")))
                    if k + 1 < nsteps:
                        conds.append(z3.And(*earlier_ok, oc[(i, k)] == 3, z3.BoolVal(a[2] == f"step{k + 1}")))
                claims.append(z3.Or(*conds))
                claims.append(z3.Or(*[z3.And(*[oc[(i, j)] == 0 for j in range(k)], z3.Or(oc[(i, k)] == 1, oc[(i, k)] == 3), z3.BoolVal(a[1] == "ERROR")) for k in range(nsteps)]
                                    + [z3.And(*[oc[(i, j)] == 0 for j in range(k)], oc[(i, k)] == 2, z3.BoolVal(a[1] == "BUG")) for k in range(nsteps)]))
        r, m, dt = psx.check_valid(p.assertions, z3.And(*claims) if claims else z3.BoolVal(True))
        nq += 1
        if r == "sat":
            d = {str(v): m.eval(v, model_completion=True).as_long() for v in list(oc.values()) + [permv] + list(winv.values())}
            d.update({str(v): psx.model_float(m, v) for v in pv.values()})
            return {"status": "cex", "cex": d, "queries": nq}
        if r != "unsat":
            return {"status": "inconclusive", "detail": f"z3 {r}"}
    return {"status": "holds", "paths": stats["paths"], "queries": nq, "detail": f"{ninputs} inputs x {nsteps} steps, parallel={parallel}: {stats['paths']} outcome/order combinations", "solver_s": round(time.time() - t0, 2)}


# ---------------------------------------------------------------- a failure record can be built from whatever value was being processed
SOURCE_KINDS = ["none", "str", "path", "obj_source", "obj_info_source", "dict_info_source", "dict_source", "dict_info_str", "dict_info_none",
                "dict_info_list", "dict_empty", "int", "list", "obj_source_dict_bad"]


def mk_not_completed_source():
    """NotCompleted(type, origin, message, source=<the value a step was given>) is what turns a failing record into data. It must
    never raise, whatever the value looks like (CrossHair: the kind of value is a symbolic index, the text a symbolic string), and
    its .source is the identifier the value carries, or None when it carries none."""

    def check(kind: int, text: str) -> bool:
        """
        pre: 0 <= kind < len(SOURCE_KINDS)
        pre: 1 <= len(text) <= 2 and all(c in "ab." for c in text)
        post: _
        """
        (kind, text), untraced = W.concrete((kind, text))  # dict literals are proxy mappings under tracing; singledispatch needs real types
        with untraced:
            return body(kind, text)

    def body(kind, text):
        import pathlib
        import types

        from cogent3.app.composable import NotCompleted

        k = SOURCE_KINDS[kind]
        name = "f" + text
        value, want = {
            "none": (None, None),
            "str": ("dir/" + name, name),
            "path": (pathlib.Path("dir") / name, name),
            "obj_source": (types.SimpleNamespace(source="dir/" + name), name),
            "obj_info_source": (types.SimpleNamespace(info=types.SimpleNamespace(source=name), source=None), None),
            "dict_info_source": ({"info": {"source": name}}, name),
            "dict_source": ({"source": name, "x": 1}, name),
            "dict_info_str": ({"info": "free text " + name, "x": 1}, None),
            "dict_info_none": ({"info": None}, None),
            "dict_info_list": ({"info": [name]}, None),
            "dict_empty": ({}, None),
            "int": (3, None),
            "list": ([name], None),
            "obj_source_dict_bad": (types.SimpleNamespace(source={"info": 5}), None),
        }[k]
        nc = NotCompleted("ERROR", "step1", "message " + name, source=value)  # must not raise
        if not W.reach("end"):
            return False
        if bool(nc) or nc.type != "ERROR" or nc.origin != "step1":
            return False
        if k in ("dict_info_str", "dict_info_none", "dict_info_list", "obj_source_dict_bad", "obj_info_source"):
            return True  # no identifier can be read from these: only "does not raise" is claimed
        return nc.source == want

    return check


ENCODED = [("src/cogent3/util/parallel.py", ["as_completed", "_as_completed_mproc"]), ("src/cogent3/app/composable.py", ["define_app", "_class_from_func", "__add__ composition", "_call", "_validate_data_type", "_source_wrapped", "_proxy_input", "source_proxy", "_as_completed", "_apply_to", "NotCompleted", "_get_origin"])]
BOUNDS = {
    "quick": ["loader + 1..2 generic steps + writer; 2 inputs x 2 steps and 3 inputs x 1 step; per-record per-step outcome in {ok, raises, returns None, returns wrong type} (symbolic); completion order: every permutation (symbolic); payloads symbolic reals",
              "serial and parallel dispatch"],
    "thorough": ["as quick plus 3 inputs x 2 steps"],
}
ASSUMPTIONS = [
    "the executor layer is the environment: util.parallel.as_completed and _as_completed_mproc are the real code; loky.get_reusable_executor returns a stub executor whose submit applies the function to deep copies (process boundary), "
    "concurrent.futures.as_completed yields the futures in a solver-chosen completion order and concurrent.futures.wait(FIRST_COMPLETED) returns the solver-chosen set of futures that finished in the same wake-up (>= 1, in completion order); real process pools / MPI / timing are outside",
    "the output store is an in-memory object with the __contains__ / write / write_not_completed interface; on-disk stores are C13 territory",
    "deepcopy stands in for pickling across the process boundary (z3 terms cannot be pickled)",
]
OUTSIDE = ["real multiprocessing / MPI executors, chunking and worker counts", "the real writers (write_seqs / write_db / ...) and data stores", "logging", "falsy inputs (skipped by _proxy_input by design)"]
TRUSTED = ["vlib/psx.py"]


def obligations(tier):
    T = tier == "thorough"
    obs = []
    shapes = [(2, 2), (3, 1), (2, 1)] + ([(3, 2)] if T else [])
    for n, k in shapes:
        for par in (False, True):
            obs.append(Ob(f"apply_to/in{n}/steps{k}/{'parallel' if par else 'serial'}", __name__, "mk", {"ninputs": n, "nsteps": k, "parallel": par}, kind="direct", timeout=1800, group="apply_to"))
    obs.append(Ob("not_completed_source", __name__, "mk_not_completed_source", {}, kind="crosshair", timeout=900, group="records", grade="realised-input"))
    return obs


def classify(name, args, cex, rep):
    return None
