"""C09 — tree transformations preserve tips, topology and path lengths.

Engine E1 (CrossHair): tree shapes are enumerated (shard key), every branch length is a symbolic
positive integer (the arithmetic is linear, so the verdict is the same over the reals).
"""
from __future__ import annotations

import itertools

from vlib import w as W
from vlib.core import Ob

PROPERTY_ID = "C09"
ENGINE = 'E1 CrossHair 0.0.110 (z3) + E2 psx for root_at_midpoint'
TECHNIQUE = 'CrossHair symbolic execution of the real tree transformations on every small shape with symbolic positive branch lengths (tip set, every path length, split set, receiver untouched) and with a symbolic node name through the JSON / Newick text routes; root_at_midpoint by proxy execution on z3 reals with every feasible ordering closed by z3'
CLAIM = (
    "for every enumerated tree shape and ALL positive branch lengths: copy / re-root / unroot / sort / sub-tree / prune keep the tip set, "
    "every tip-to-tip path length and the unrooted split set, leave the receiver untouched, and get_distances equals a parent-pointer walk."
)


# ---------------------------------------------------------------- shapes
def _shapes(n):
    """all rooted tree shapes with n leaves, internal nodes with >= 2 children, as nested tuples (canonical)"""
    if n == 1:
        return ["x"]
    out = set()

    def parts(total, maxpart):
        if total == 0:
            yield []
            return
        for p in range(min(total, maxpart), 0, -1):
            for rest in parts(total - p, p):
                yield [p] + rest

    for part in parts(n, n - 1):
        if len(part) < 2:
            continue
        choices = [_shapes(p) for p in part]
        for combo in itertools.product(*choices):
            out.add(tuple(sorted(combo, key=repr)))
    return sorted(out, key=repr)


def _newick(shape):
    """label tips a,b,c.. and internal nodes n0,n1.. ; returns (newick, edge names in order, tip names, internal names)"""
    tips, internals, edges = [], [], []

    def rec(s, root=False):
        if s == "x":
            nm = "abcdefgh"[len(tips)]
            tips.append(nm)
            edges.append(nm)
            return nm
        kids = [rec(k) for k in s]
        if root:
            return "(" + ",".join(kids) + ")root"
        nm = f"n{len(internals)}"
        internals.append(nm)
        edges.append(nm)
        return "(" + ",".join(kids) + ")" + nm

    return rec(shape, True) + ";", edges, tips, internals


def all_shapes(max_tips, min_tips=3):
    res = []
    for n in range(min_tips, max_tips + 1):
        for s in _shapes(n):
            nwk, edges, tips, internals = _newick(s)
            res.append({"id": f"t{n}_{len([r for r in res if r['n'] == n])}", "n": n, "newick": nwk, "edges": edges, "tips": tips, "internals": internals})
    return res


# a few hand-written shapes with single-child internal nodes (for prune / sub-tree merging)
EXTRA = [
    {"id": "s1", "n": 3, "newick": "((a)n0,(b,c)n1)root;", "edges": ["a", "n0", "b", "c", "n1"], "tips": ["a", "b", "c"], "internals": ["n0", "n1"]},
    {"id": "s2", "n": 3, "newick": "(((a,b)n0)n1,c)root;", "edges": ["a", "b", "n0", "n1", "c"], "tips": ["a", "b", "c"], "internals": ["n0", "n1"]},
    {"id": "s3", "n": 4, "newick": "((a,(b)n0)n1,((c,d)n2)n3)root;", "edges": ["a", "b", "n0", "n1", "c", "d", "n2", "n3"], "tips": ["a", "b", "c", "d"], "internals": ["n0", "n1", "n2", "n3"]},
]
_SHAPE_CACHE = {}


def shape_by_id(sid):
    if not _SHAPE_CACHE:
        for s in all_shapes(6) + EXTRA:
            _SHAPE_CACHE[s["id"]] = s
    return _SHAPE_CACHE[sid]


# ---------------------------------------------------------------- oracle helpers
def pathlen(tree, n1, n2):
    a = tree.get_node_matching_name(n1)
    b = tree.get_node_matching_name(n2)
    anc = {}
    d = 0
    x = a
    while x is not None:
        anc[id(x)] = d
        if x.parent is not None:
            d = d + x.length
        x = x.parent
    d2 = 0
    y = b
    while id(y) not in anc:
        d2 = d2 + y.length
        y = y.parent
    return anc[id(y)] + d2


def all_paths(tree, tips):
    return {(x, y): pathlen(tree, x, y) for x in tips for y in tips if x < y}


def snapshot(node):
    return (node.name, node.length, tuple(snapshot(c) for c in node.children))


def splits(tree, tips):
    """non-trivial bipartitions of the retained tips induced by the edges (unrooted topology)"""
    all_t = frozenset(tips)
    res = set()
    for node in tree.traverse(include_self=False):
        below = frozenset(t for t in node.get_tip_names(includeself=True) if t in all_t)
        other = all_t - below
        if len(below) >= 2 and len(other) >= 2:
            res.add(frozenset([below, other]))
    return res


def setup_symbolic():
    import numpy

    import cogent3.core.tree as T

    T.zeros = lambda shape, dtype=None: numpy.zeros(shape, dtype=object)


def _build(shape, lengths):
    from cogent3 import make_tree

    t = make_tree(treestring=shape["newick"])
    for n, l in zip(shape["edges"], lengths):
        t.get_node_matching_name(n).length = l
    return t


def mk(shape_id, op):
    shape = shape_by_id(shape_id)
    tips = shape["tips"]
    ne = len(shape["edges"])

    def check(l0: int, l1: int, l2: int, l3: int, l4: int, l5: int, l6: int, l7: int, l8: int, l9: int) -> bool:
        """
        pre: l0 > 0 and l1 > 0 and l2 > 0 and l3 > 0 and l4 > 0 and l5 > 0 and l6 > 0 and l7 > 0 and l8 > 0 and l9 > 0
        post: _
        """
        lengths = [l0, l1, l2, l3, l4, l5, l6, l7, l8, l9][:ne]
        t = _build(shape, lengths)
        before = all_paths(t, tips)
        snap = snapshot(t)
        spl = splits(t, tips)
        results = []  # (result tree, retained tips)
        if op == "unrooted":
            results.append((t.unrooted(), tips))
        elif op == "unrooted_deepcopy":
            results.append((t.unrooted_deepcopy(), tips))
        elif op == "rooted_at":
            for nm in shape["internals"]:
                results.append((t.rooted_at(nm), tips))
        elif op == "rooted_with_tip":
            for nm in tips:
                results.append((t.rooted_with_tip(nm), tips))
        elif op == "deepcopy":
            results.append((t.deepcopy(), tips))
            results.append((t.copy(), tips))
        elif op == "sorted":
            results.append((t.sorted(), tips))
            results.append((t.sorted(list(reversed(tips))), tips))
        elif op == "sub":
            for k in range(2, len(tips)):
                for sub in itertools.combinations(tips, k):
                    results.append((t.get_sub_tree(list(sub)), list(sub)))
        elif op == "sub_keep_root":
            for k in range(2, len(tips)):
                for sub in itertools.combinations(tips, k):
                    results.append((t.get_sub_tree(list(sub), keep_root=True), list(sub)))
        elif op == "midpoint":
            results.append((t.root_at_midpoint(), tips))
        elif op == "rich_dict":
            from cogent3.util.deserialise import deserialise_tree

            d = t.to_rich_dict()
            d = {k: ({n: dict(v) for n, v in d[k].items()} if k == "edge_attributes" else d[k]) for k in d}  # stands in for json round trip
            d.pop("type", None)
            results.append((deserialise_tree(d), tips))
        elif op == "prune":
            c = t.deepcopy()
            c.prune()
            results.append((c, tips))
            for node in c.traverse(include_self=False):
                if len(node.children) == 1:
                    return False
        elif op == "distances":
            d = t.get_distances()
            for (x, y), v in before.items():
                if d[(x, y)] != v or d[(y, x)] != v:
                    return False
            m, order = t.tip_to_tip_distances()
            names = [n.name for n in order]
            for (x, y), v in before.items():
                if m[names.index(x), names.index(y)] != v:
                    return False
            if len(d) != len(tips) * (len(tips) - 1):
                return False
        if not W.reach("end"):
            return False
        for r, keep in results:
            got_tips = r.get_tip_names()
            if sorted(got_tips) != sorted(keep):
                return False
            for (x, y), v in before.items():
                if x in keep and y in keep:
                    if pathlen(r, x, y) != v:
                        return False
            if op not in ("sub", "sub_keep_root"):
                if splits(r, keep) != spl:
                    return False
            else:
                want = set()
                kp = frozenset(keep)
                for s in spl:
                    a, b = tuple(s)
                    a, b = a & kp, b & kp
                    if len(a) >= 2 and len(b) >= 2:
                        want.add(frozenset([a, b]))
                if splits(r, keep) != want:
                    return False
            if op in ("unrooted",) and len(r.children) < 3 and len(tips) >= 3:
                return False
        # receiver untouched
        return snapshot(t) == snap and all_paths(t, tips) == before

    return check



# ------------------------------------------------------------------ root_at_midpoint through psx (E2): floats / division in the code
def mk_midpoint(shape_id, _replay=None):
    """root_at_midpoint compares sums of lengths with max_dist / 2.0; CrossHair cannot exhaust float paths, so the real
    method runs on z3 Real proxies (psx): every feasible ordering of the path sums is a fork."""
    import time

    import numpy
    import z3

    import cogent3.core.tree as T
    from vlib import psx

    shape = shape_by_id(shape_id)
    tips = shape["tips"]
    ne = len(shape["edges"])
    lv = [z3.Real(f"l{i}") for i in range(ne)]
    t0 = time.time()
    if _replay is not None:
        lengths = [float(_replay[f"l{i}"]) for i in range(ne)]
        t = _build(shape, lengths)
        before = all_paths(t, tips)
        snap = snapshot(t)
        r = t.root_at_midpoint()
        bad = []
        if snapshot(t) != snap:
            bad.append("receiver modified")
        for (x, y), v in before.items():
            if abs(pathlen(r, x, y) - v) > 1e-9 * max(1.0, abs(v)):
                bad.append(f"path {x}-{y} {pathlen(r, x, y)} != {v}")
        if sorted(r.get_tip_names()) != sorted(tips):
            bad.append("tips differ")
        rd = {n: pathlen_to_root(r, n) for n in tips}
        mx = max(rd.values())
        tops = [n for n in tips if abs(rd[n] - mx) <= 1e-9 * max(1.0, mx)]
        kids = {n: _root_child_of(r, n) for n in tops}
        if len(set(kids.values())) < 2:
            bad.append(f"root is not at the midpoint of the longest path: root distances {rd}")
        return {"status": "reproduced" if bad else "not_reproduced", "detail": "; ".join(bad)[:500]}

    T.zeros = lambda shape_, dtype=None: psx.obj_array(shape_, lambda *idx: psx.const(0))

    def run():
        t = _build(shape, [psx.SReal(v) for v in lv])
        before = all_paths(t, tips)
        snap = snapshot(t)
        r = t.root_at_midpoint()
        return t, before, snap, r

    assumptions = [v > 0 for v in lv]
    if not W.reach("end"):
        paths, stats = psx.explore(run, assumptions, max_paths=5000)
        ok = any(p.exc is None for p in paths)
        return {"status": "cex" if ok else "inconclusive", "cex": {"twin": f"{len(paths)} feasible paths reach the end"}}
    paths, stats = psx.explore(run, assumptions, max_paths=5000)
    nq = stats["queries"]
    for p in paths:
        if p.exc is not None:
            s = z3.Solver()
            s.add(*p.assertions)
            s.check()
            m = s.model()
            return {"status": "cex", "cex": {f"l{i}": psx.model_float(m, lv[i]) for i in range(ne)}, "detail": f"raised {p.exc!r}"}
        t, before, snap, r = p.result
        claims = []
        if sorted(r.get_tip_names()) != sorted(tips):
            claims.append(z3.BoolVal(False))
        for (x, y), v in before.items():
            claims.append(psx.term(pathlen(r, x, y)) == psx.term(v))
        after = snapshot(t)
        claims.append(_snap_eq(snap, after))
        if splits(r, tips) != splits(_build(shape, [1] * ne), tips):
            claims.append(z3.BoolVal(False))
        # midpoint: the largest root-to-tip distance is attained in two different children of the root
        rd = {n: psx.term(pathlen_to_root(r, n)) for n in tips}
        alts = []
        for x in tips:
            for y in tips:
                if x < y and _root_child_of(r, x) is not _root_child_of(r, y):
                    alts.append(z3.And(rd[x] == rd[y], *[rd[z] <= rd[x] for z in tips]))
        claims.append(z3.Or(*alts) if alts else z3.BoolVal(False))
        res, m, dt = psx.check_valid(p.assertions, z3.And(*claims), timeout_ms=120000)
        nq += 1
        if res == "sat":
            return {"status": "cex", "cex": {f"l{i}": psx.model_float(m, lv[i]) for i in range(ne)}, "queries": nq}
        if res != "unsat":
            return {"status": "inconclusive", "detail": f"z3 {res}"}
    return {"status": "holds", "paths": stats["paths"], "queries": nq, "solver_s": round(time.time() - t0, 2),
            "detail": f"{stats['paths']} feasible orderings of path sums, unknown branch checks={stats['unknown_branch_checks']}"}


def _snap_eq(a, b):
    import z3

    from vlib import psx

    if a[0] != b[0] or len(a[2]) != len(b[2]):
        return z3.BoolVal(False)
    conj = []
    if (a[1] is None) != (b[1] is None):
        return z3.BoolVal(False)
    if a[1] is not None:
        conj.append(psx.term(a[1]) == psx.term(b[1]))
    for x, y in zip(a[2], b[2]):
        conj.append(_snap_eq(x, y))
    return z3.And(*conj) if conj else z3.BoolVal(True)


def pathlen_to_root(tree, name):
    x = tree.get_node_matching_name(name)
    d = 0
    while x.parent is not None:
        d = d + x.length
        x = x.parent
    return d


def _root_child_of(tree, name):
    x = tree.get_node_matching_name(name)
    while x.parent is not None and x.parent.parent is not None:
        x = x.parent
    return x


ENCODED = [
    ("src/cogent3/phylo/tree_distance.py", ["unrooted_robinson_foulds", "rooted_robinson_foulds", "lin_rajan_moret", "matching_cluster_distance", "_compute_splits", "_convert_tree_to_vectors", "_matched_distance"]),
    ("src/cogent3/core/tree.py", ["TreeNode.tree_distance", "TreeNode.lin_rajan_moret", "TreeNode.subsets"]),
    (
        "src/cogent3/core/tree.py",
        ["TreeNode.unrooted_deepcopy", "TreeNode.unrooted", "TreeNode.rooted_at", "TreeNode.rooted_with_tip", "TreeNode._get_sub_tree",
         "TreeNode.get_sub_tree", "TreeNode.copy", "TreeNode.deepcopy", "TreeNode._sorted", "TreeNode.sorted", "PhyloNode.prune",
         "PhyloNode.root_at_midpoint", "PhyloNode._get_distances", "PhyloNode.get_distances", "PhyloNode.tip_to_tip_distances",
         "TreeNode.get_tip_names", "TreeNode._getNeighboursExcept", "TreeBuilder.edge_from_edge", "TreeNode.to_rich_dict", "util.deserialise.deserialise_tree"],
    )
]
BOUNDS = {
    "quick": ["all rooted tree shapes with 3..5 tips (multifurcations included) + 3 shapes with single-child internal nodes; all branch lengths symbolic positive integers, unbounded",
              "re-rooting at every internal node / beside every tip; sub-trees for every tip subset of size >= 2"],
    "thorough": ["all rooted tree shapes with 3..6 tips + 3 shapes with single-child internal nodes; all branch lengths symbolic positive integers, unbounded",
                 "re-rooting at every internal node / beside every tip; sub-trees for every tip subset of size >= 2"],
}
ASSUMPTIONS = [
    "branch lengths are positive integers (all arithmetic on them in the encoded functions is + and comparison, so the verdict carries to reals; float rounding is outside)",
    "tree.zeros rebound to an object-dtype allocator inside the worker so symbolic lengths survive numpy",
    "trees are built by make_tree from a newick string (parser trusted for these fixed strings); tip and node names are fixed letters",
]
OUTSIDE = ["newick / JSON float formatting; names longer than 3 characters", "the VALUE of the Lin-Rajan-Moret distance beyond zero-iff-equal and symmetry; matching cluster on > 5 tips; multifurcating trees in the Robinson-Foulds / unrooted metrics", "trees with > 6 tips", "None / zero branch lengths"]
TRUSTED = ["the parent-pointer path-length walker and split-set extractor in props/c09.py"]

# ---------------------------------------------------------------- names through the text routes
NAME_ALPHABETS = {
    # newick punctuation, the quote, blank and underscore (which newick equates with a blank), and an ordinary letter
    "punct": "a (:,;['_\"",
    "blank": "a _",
}


NAMES_KNOWN_KEY = "get_newick:name-enclosed-in-single-quotes"
NAMES_KNOWN_KEY2 = "newick-tokeniser:label-starting-with-an-escaped-quote"


def _leading_quote(name):
    """known findings, both about names that START with a single quote: enclosed in quotes -> get_newick writes it verbatim as
    'already quoted'; otherwise it is written as '''x...' and the tokeniser reads the first two quotes as an empty label"""
    return name[:1] == "'"  # (startswith / name[0] trip a CrossHair internal error on bounded strings)


def mk_names(route, which, maxlen, alpha, exclude_known=False):
    """One node NAME is a symbolic printable string; the tree goes through JSON (to_rich_dict -> deserialise_tree) or Newick
    (get_newick(with_distances) -> make_tree): same tip set, same node names, same lengths on the named edges."""
    chars = NAME_ALPHABETS[alpha]

    def check(name: str) -> bool:
        """
        pre: 1 <= len(name) <= maxlen and all(c in chars for c in name)
        pre: name == name.strip()
        post: _
        """
        import cogent3
        from cogent3.util.deserialise import deserialise_tree

        _ = (maxlen, chars)
        if exclude_known and _leading_quote(name):
            return True
        t = cogent3.make_tree(treestring="((x:1,b:2)y:3,c:4)root;")
        t.get_node_matching_name("x" if which == "tip" else "y").name = name
        if route == "json":
            d = t.to_rich_dict()
            if W.PLAIN:
                import json

                d = json.loads(json.dumps(d))
            r = deserialise_tree(dict(d))
        else:
            # newick writes a blank as an underscore; the reader turns it back with underscore_unmunge
            r = cogent3.make_tree(treestring=t.get_newick(with_distances=True, with_node_names=True), underscore_unmunge=True)
        if not W.reach("end"):
            return False
        want = {(n.name, n.length) for n in t.get_edge_vector(include_root=False)}
        got = {(n.name, n.length) for n in r.get_edge_vector(include_root=False)}
        if sorted(r.get_tip_names()) != sorted(t.get_tip_names()):
            return False
        return want == got

    return check


_OPS = ["unrooted", "unrooted_deepcopy", "rooted_at", "rooted_with_tip", "deepcopy", "sorted", "sub", "sub_keep_root", "distances", "midpoint", "rich_dict"]


def obligations(tier):
    T = tier == "thorough"
    shapes = all_shapes(6 if T else 5)
    obs = []
    for s in shapes:
        for op in _OPS:
            if op == "rooted_at" and not s["internals"]:
                continue
            if s["n"] == 6 and op in ("sub", "sub_keep_root", "midpoint"):
                continue
            if op == "midpoint":
                obs.append(Ob(f"midpoint/{s['id']}", __name__, "mk_midpoint", {"shape_id": s["id"]}, kind="direct", timeout=900, group=op))
                continue
            obs.append(Ob(f"{op}/{s['id']}", __name__, "mk", {"shape_id": s["id"], "op": op}, timeout=600, group=op))
    for route in ("json", "newick"):
        for which in ("tip", "internal"):
            a2 = {"route": route, "which": which, "maxlen": 2, "alpha": "punct"}
            obs.append(Ob(f"names/{route}/{which}/len2/punct", __name__, "mk_names", a2, timeout=900, group="names", expect_known=NAMES_KNOWN_KEY))
            obs.append(Ob(f"names_excl_known/{route}/{which}/len2/punct", __name__, "mk_names", dict(a2, exclude_known=True), timeout=900, group="names"))
            obs.append(Ob(f"names/{route}/{which}/len3/blank", __name__, "mk_names", {"route": route, "which": which, "maxlen": 3, "alpha": "blank"}, timeout=900, group="names"))
            if T:
                obs.append(Ob(f"names_excl_known/{route}/{which}/len3/punct", __name__, "mk_names", {"route": route, "which": which, "maxlen": 3, "alpha": "punct", "exclude_known": True}, timeout=3600, group="names"))
    for rooted, n in ((True, 4), (False, 5)) + (((True, 5), (False, 6)) if T else ()):
        obs.append(Ob(f"tree_distance/{'rooted' if rooted else 'unrooted'}/tips{n}", "props.c09_dist", "mk_distance", {"rooted": rooted, "ntips": n}, timeout=3600, group="distance", grade="realised-input"))
    obs.append(Ob("matching_cluster_value/tips4", "props.c09_dist", "mk_matching_cluster", {"ntips": 4}, timeout=1800, group="distance", grade="realised-input"))
    NSH = 8  # 236 rooted trees on 5 tips: ~30 first trees per shard, each against all 236
    for sh in range(NSH):
        obs.append(Ob(f"matching_cluster_value/tips5/shard{sh}of{NSH}", "props.c09_dist", "mk_matching_cluster", {"ntips": 5, "shard": sh, "nshards": NSH}, timeout=3600, group="distance", grade="realised-input"))
    for s in EXTRA:
        for op in ("prune", "sub", "rooted_with_tip", "distances", "unrooted_deepcopy"):
            obs.append(Ob(f"{op}/{s['id']}", __name__, "mk", {"shape_id": s["id"], "op": op}, timeout=600, group=op))
    return obs


def classify(name, args, cex, rep):
    if name.startswith("tree_distance") or name.startswith("matching_cluster"):
        return None
    if name.startswith("names"):
        nm = cex.get("name", "")
        if nm[:1] == "'":
            return NAMES_KNOWN_KEY if nm[-1:] == "'" else NAMES_KNOWN_KEY2
        if "/json/" in name:
            return "to_rich_dict:names-with-newick-punctuation"
        return "newick:quoted-label-equal-to-a-token"
    op = args["op"]
    if op == "unrooted":
        return "unrooted:collapsed-root-child-lengths-inflated"
    if op == "midpoint":
        return "root_at_midpoint"
    if op in ("sub", "sub_keep_root"):
        return "get_sub_tree"
    return None


def pathlen_to_root_from(root, tipname):
    """distance from `root` (any node) down to the named tip below it"""
    for x in root.traverse():
        if x.name == tipname and not x.children:
            d = 0
            while x is not root:
                d = d + x.length
                x = x.parent
            return d
    raise KeyError(tipname)
