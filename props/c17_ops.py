"""C17 (part 2) - operations that must preserve the multiset of records: union, update, subset, pickling, rich dict / JSON.

Own module (props.c17.setup_symbolic rebinds numpy.array inside annotation_db for its symbolic-coordinate harness; here the
databases are built the ordinary way on SQLite). CrossHair explores one mixed-radix symbolic integer that encodes the two
records (coordinates, strand, a second nested/unsorted span, same / different name and seqid); it is realised up front because
the values go straight into SQLite.
"""
from __future__ import annotations

from vlib import w as W

OPS = ("union", "update", "subset_all", "subset_seqid", "pickle", "rich_dict")
CLASSES = ("BasicAnnotationDb", "GffAnnotationDb")


def mk_db_op(op, cls_name, other_cls=None):
    RADIX = [4, 2, 2, 2, 2, 2, 3]  # start, length, strand, second span?, same name?, same seqid?, start of record B
    TOTAL = 1
    for r_ in RADIX:
        TOTAL *= r_

    NBLOCKS = W.nblocks(TOTAL)

    def check(code: int) -> bool:
        """
        pre: 0 <= code < TOTAL
        post: _
        """
        import json
        import pickle

        from cogent3.core import annotation_db as A
        from cogent3.util.deserialise import deserialise_object

        _ = TOTAL
        code, untraced = W.concrete(code)
        with untraced:
            return body(code)

    def body(code):
        import json
        import pickle

        from cogent3.core import annotation_db as A
        from cogent3.util.deserialise import deserialise_object

        d = []
        for r_ in RADIX:
            d.append(code % r_)
            code //= r_
        a0, ln, strand, two, same_name, same_seqid, b0 = d
        spans_a = [(a0, a0 + 1 + ln)] + ([(a0 + 1, a0 + 2)] if two else [])  # the second span is nested in / overlaps the first
        rec_a = dict(seqid="s", biotype="gene", name="g1", spans=spans_a, strand="-" if strand else "+")
        rec_b = dict(seqid="s" if same_seqid else "t", biotype="cds", name="g1" if same_name else "g2", spans=[(b0, b0 + 2)], strand="+")

        def make(cls, recs):
            db = getattr(A, cls)()
            for k, r in enumerate(recs):
                if cls == "BasicAnnotationDb":
                    db.add_feature(**r)
                else:
                    db.add_records({f"k{k}": dict(r, spans=[list(x) for x in r["spans"]])})
            return db

        def model(r):
            flat = [x for sp in r["spans"] for x in sp]
            return (r["name"], min(flat), max(flat), r["strand"], sorted([min(sp), max(sp)] for sp in r["spans"]), r["seqid"], r["biotype"])

        def recs(db):
            return sorted((r["name"], r["start"], r["stop"], r["strand"], [[int(x) for x in sp] for sp in r["spans"]], r["seqid"], r["biotype"]) for r in db.get_records_matching())

        first = make(cls_name, [rec_a])
        second = make(other_cls or cls_name, [rec_b, rec_a] if same_name else [rec_b])
        second_model = sorted(model(r) for r in ([rec_b, rec_a] if same_name else [rec_b]))
        if not W.reach("end"):
            return False
        if op == "union":
            got, want = recs(first.union(second)), sorted([model(rec_a)] + second_model)
        elif op == "update":
            first.update(second)
            got, want = recs(first), sorted([model(rec_a)] + second_model)
        elif op == "subset_all":
            got, want = recs(second.subset()), second_model
        elif op == "subset_seqid":
            got, want = recs(second.subset(seqid="s")), sorted(m for m in second_model if m[5] == "s")
        elif op == "pickle":
            got, want = recs(pickle.loads(pickle.dumps(second))), second_model
        elif op == "rich_dict":
            got, want = recs(deserialise_object(json.loads(json.dumps(second.to_rich_dict())))), second_model
        else:
            raise KeyError(op)
        return got == want

    return check
