"""C03 (part 2) - column operations of both old-style alignment classes against the gapped strings.

Kept in its own module so that its obligations run in worker processes where props.c03.setup_symbolic (module-global rebinding
for the symbolic row harnesses) is NOT active: here whole alignments are built through the public constructor.
"""
from __future__ import annotations

from vlib import w as W

# ---------------------------------------------------------------- column operations: both alignment classes vs the strings
_COL_A, _COL_B = "A-?N", "C-"  # row a over {A, gap, missing, degenerate}; row b over {C, gap}: every column class occurs
COL_OPS = ["degapped_rel", "take", "omit", "no_degenerates", "no_degenerates_allow_gap", "omit_gap_pos_strict", "omit_gap_pos_default",
            "degap", "gap_array", "variable_positions"]


def mk_columns(op, array_align, nsym=2):
    """A 2 x 3 alignment whose CONTENT is symbolic (one mixed-radix integer over the two row alphabets, realised up front because
    both classes push characters through numpy / str.translate at once) and two symbolic column positions; each column operation
    on the old-style Alignment / ArrayAlignment must give the rows the same operation gives on the two gapped strings."""
    NA, NB = len(_COL_A), len(_COL_B)
    uses_pos = op in ("take", "omit")
    # row a: 3 symbolic characters; row b: first character symbolic, then "CC" (so an all-gap column, a one-gap column and gap-free
    # columns all occur); two column positions i, j = i+1 (mod 3) for take / omit
    # quick: nsym = 2 symbolic characters in row a (third fixed 'A'); thorough: all 3
    TOTAL = NA**nsym * NB * (3 if uses_pos else 1)

    NBLOCKS = W.nblocks(TOTAL)

    def check(code: int) -> bool:
        """
        pre: 0 <= code < TOTAL
        post: _
        """
        import cogent3

        _ = TOTAL
        code, untraced = W.concrete(code)
        with untraced:
            return body(code)

    def body(code):
        import cogent3

        ra, rb = "", ""
        for _i in range(nsym):
            ra += _COL_A[code % NA]
            code //= NA
        ra += "A" * (3 - nsym)
        rb = _COL_B[code % NB] + "CC"
        code //= NB
        i = code % 3
        j = (i + 1) % 3
        rows = {"a": ra, "b": rb}
        aln = cogent3.make_aligned_seqs({"a": ra, "b": rb}, moltype="dna", array_align=array_align)  # (dict(rows) is a proxy mapping under tracing)
        cols = list(zip(ra, rb))
        keep = lambda pred: {"a": "".join(c[0] for c in cols if pred(c)), "b": "".join(c[1] for c in cols if pred(c))}
        gapch = "-?"
        canon = "ACGT"
        if not W.reach("end"):
            return False
        if op == "degapped_rel":
            want, got = keep(lambda c: c[0] != "-"), aln.get_degapped_relative_to("a").to_dict()
        elif op == "take":
            want, got = {n: r[i] + r[j] for n, r in rows.items()}, aln.take_positions([i, j]).to_dict()
        elif op == "omit":
            want = {n: "".join(ch for k, ch in enumerate(r) if k not in (i, j)) for n, r in rows.items()}
            got = aln.take_positions([i, j], negate=True).to_dict()
        elif op == "no_degenerates":
            want = keep(lambda c: all(ch in canon for ch in c))
            if not want["a"]:
                return True  # an alignment without columns cannot be constructed (both classes raise)
            got = aln.no_degenerates().to_dict()
        elif op == "no_degenerates_allow_gap":
            want = keep(lambda c: all(ch in canon + "-" for ch in c))
            if not want["a"]:
                return True
            got = aln.no_degenerates(allow_gap=True).to_dict()
        elif op == "omit_gap_pos_strict":
            want = keep(lambda c: not any(ch in gapch for ch in c))
            if not want["a"]:
                return True
            got = aln.omit_gap_pos(allowed_gap_frac=0).to_dict()
        elif op == "omit_gap_pos_default":
            want = keep(lambda c: not all(ch in gapch for ch in c))
            if not want["a"]:
                return True
            got = aln.omit_gap_pos().to_dict()
        elif op == "degap":
            want = {n: "".join(ch for ch in r if ch not in gapch) for n, r in rows.items()}
            if not want["a"] or not want["b"]:
                return True  # an empty sequence cannot be a member of a collection
            got = aln.degap().to_dict()
        elif op == "gap_array":
            g1 = [[bool(x) for x in row] for row in aln.get_gap_array()]
            g0 = [[bool(x) for x in row] for row in aln.get_gap_array(include_ambiguity=False)]
            return g1 == [[ch in gapch for ch in ra], [ch in gapch for ch in rb]] and g0 == [[ch == "-" for ch in ra], [ch == "-" for ch in rb]]
        elif op == "variable_positions":
            return [int(x) for x in aln.variable_positions()] == [k for k, c in enumerate(cols) if c[0] != c[1]]
        else:
            raise KeyError(op)
        return {n: str(v) for n, v in got.items()} == want

    return check


