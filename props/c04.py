"""C04 — annotations keep denoting the same residues through every view.

Engine E1 (CrossHair): the real Sequence.get_features / make_feature / coordinate conversion code runs for a
symbolic feature, a symbolic history of slices / reverse complements and a symbolic annotation offset; the
returned feature's spans, mapped back to parent coordinates through the view, must equal the original spans
restricted to the view's window.
"""
from __future__ import annotations

import numpy

from props import c01
from vlib import w as W
from vlib.core import Ob

PROPERTY_ID = "C04"
ENGINE = 'E1 CrossHair 0.0.110 (z3) on the real code'
TECHNIQUE = "CrossHair symbolic execution of the real get_features / make_feature / FeatureMap code over view histories (shard key) with symbolic spans, window, strand and offset, against the linear-scan definition of 'feature overlaps view'; all paths exhausted"
CLAIM = (
    "for every one- or two-span feature on either strand, every annotation offset and every history in {[a:b], rc, [a:b].rc, rc[a:b], [a:b][c:d]} of a parent of length <= 5, "
    "get_features(allow_partial) returns the feature iff it overlaps (lies inside) the view's window, never raises, and the feature's non-lost spans denote exactly the original spans restricted to the window, on the right strand."
)


def setup_symbolic():
    import cogent3.core.location as L
    import cogent3.core.sequence as S

    L._DEFAULT_GAP_DTYPE = object
    L.LostSpan = L._LostSpan
    import cogent3.core.new_sequence as NS

    def wrap(mod):
        _orig = mod.array

        def _array(x, dtype=None, **kw):
            if dtype is int:
                dtype = object
            return _orig(x, dtype=dtype, **kw)

        mod.array = _array

    wrap(S)
    wrap(NS)


class StubDb:
    """linear-scan annotation db with the signature the sequence code uses; that the real SQLite db equals this scan is decided by C17"""

    def __init__(self, recs):
        self.recs = recs
        self.queries = []

    def __bool__(self):
        return True

    def __eq__(self, o):
        return self is o

    def __hash__(self):
        return id(self)

    def get_features_matching(self, *, seqid=None, name=None, biotype=None, start=None, stop=None, allow_partial=False, **kw):
        self.queries.append((start, stop))
        for r in self.recs:
            flat = [x for sp in r["spans"] for x in sp]
            s, e = flat[0], flat[0]
            for x in flat:
                s = x if x < s else s
                e = x if x > e else e
            if allow_partial:
                ok = s < stop and e > start
            else:
                ok = s >= start and e <= stop
            if ok and (seqid is None or r["seqid"] == seqid):
                yield dict(seqid=r["seqid"], biotype=r["biotype"], name=r["name"], spans=[tuple(x) for x in r["spans"]], strand=r["strand"], on_alignment=False)


HISTORIES = {
    "slice": ["s1"],
    "rc": ["rc"],
    "slice_rc": ["s1", "rc"],
    "rc_slice": ["rc", "s1"],
    "slice_slice": ["s1", "s2"],
    "rc_slice_rc": ["rc", "s1", "rc"],
}


def window_of(v):
    """plus-strand parent window [lo, hi) displayed by a step +-1 view, and whether it is reversed"""
    sv = v._seq
    n = sv.seq_len
    if sv.step > 0:
        return sv.start, sv.stop, False
    return n + sv.stop + 1, n + sv.start + 1, True


def to_parent(v, s0, e0):
    """view-coordinate span [s0, e0) -> plus-strand parent interval"""
    lo, hi, rev = window_of(v)
    if rev:
        return hi - e0, hi - s0
    return lo + s0, lo + e0


def mk(history, minus, nspans, partial, use_offset, style="old"):
    ops = HISTORIES[history]

    def check(seq: str, f0s: int, f0e: int, f1s: int, f1e: int, a: int, b: int, c: int, d: int, off: int) -> bool:
        """
        pre: len(seq) <= 5
        pre: 0 <= f0s < f0e <= len(seq)
        pre: nspans == 1 or f0e < f1s < f1e <= len(seq)
        pre: 0 <= a < b <= len(seq)
        pre: 0 <= c < d <= b - a
        pre: (off == 0) if not use_offset else (0 <= off <= 3)
        post: _
        """
        import cogent3.core.location as L

        _ = use_offset  # closure reference for the precondition
        if not W.PLAIN:
            L._lost_span_cache.clear()
        n = len(seq)
        if style == "old":
            import cogent3.core.sequence as S

            sv = S.SeqView(seq=seq, seqid="s", offset=off)
            sq = S.DnaSequence(sv, name="s", check=False)
        else:
            import cogent3.core.new_moltype as NM
            import cogent3.core.new_sequence as S

            sv = S.SeqView(seq=seq, alphabet=NM.DNA.most_degen_alphabet(), seqid="s", offset=off)
            sq = S.DnaSequence(moltype=NM.DNA, seq=sv, name="s")
        spans = [(f0s, f0e), (f1s, f1e)][:nspans]
        db = StubDb([dict(seqid="s", biotype="gene", name="g", spans=[(s + off, e + off) for s, e in spans], strand="-" if minus else "+")])
        sq._annotation_db = db
        v = sq
        for op in ops:
            if op == "s1":
                v = v[a:b]
            elif op == "s2":
                v = v[c:d]
            else:
                v = v.rc()
            if v._annotation_db is not db:
                v._annotation_db = db  # features stay attached to views of the parent (documented behaviour for forward slices and rc)
        lo, hi, rev = window_of(v)
        feats = list(v.get_features(allow_partial=partial))
        if not W.reach("end"):
            return False
        hull_s, hull_e = spans[0][0], spans[-1][1]
        if partial:
            want_hit = hull_s < hi and hull_e > lo
        else:
            want_hit = hull_s >= lo and hull_e <= hi
        if not want_hit:
            return len(feats) == 0
        if len(feats) != 1:
            return False
        if not W.reach("hit"):
            return False
        f = feats[0]
        got = []
        for sp in f.map.spans:
            if sp.lost or sp.start == sp.end:
                continue  # lost or empty spans denote no residue
            got.append(to_parent(v, sp.start, sp.end))
        want = []
        for s, e in spans:
            x, y = (s if s > lo else lo), (e if e < hi else hi)
            if x < y:
                want.append((x, y))
        got.sort()
        if got != want:
            return False
        # the slice is read on the feature's own strand
        return f.reversed == (minus != rev)

    return check


ENCODED = [
    ("src/cogent3/core/sequence.py", ["Sequence.get_features", "Sequence.make_feature", "Sequence.parent_coordinates", "SliceRecordABC.absolute_position", "SliceRecordABC.relative_position", "Sequence.__getitem__", "NucleicAcidSequence.rc"]),
    ("src/cogent3/core/location.py", ["FeatureMap.from_locations", "_spans_from_locations", "FeatureMap.nucleic_reversed", "FeatureMap.__post_init__"]),
    ("src/cogent3/core/annotation.py", ["Feature.__init__", "Feature.reversed"]),
    ("src/cogent3/core/new_sequence.py", ["Sequence.get_features", "Sequence.make_feature", "SliceRecordABC.absolute_position / relative_position (new-style copy)"]),
]
BOUNDS = {
    "quick": ["parent length <= 5 (the code's `if not self` forces CrossHair to realise the length); features with 1 or 2 spans, both strands; histories slice, rc, slice+rc, rc+slice, slice+slice; offset 0 and symbolic 0..3; allow_partial True and False; view steps +-1",
              "sequence content symbolic but never inspected"],
    "thorough": ["as quick + history rc+slice+rc and 2-span features for every history"],
}
ASSUMPTIONS = [
    "the annotation db is a linear-scan stub with the real get_features_matching signature; equivalence of the real SQLite query with this scan is what C17 decides (the claims compose)",
    "numpy arrays of coordinates are object-dtype under the solver (sequence.array rebound): int overflow outside",
    "location.LostSpan memo cache bypassed",
    "a feature 'overlaps' by its hull (min start, max stop), as the db stores it",
]
OUTSIDE = ["strided views", "features added on the alignment itself (on_alignment=True), multi-span features through an alignment, ArrayAlignment", "degapping", "GFF / GenBank loaded dbs"]
TRUSTED = ["the window / coordinate mapping in props/c04.py (uses the C01-verified view reading)"]


def obligations(tier):
    T = tier == "thorough"
    obs = []
    hs = ["slice", "rc", "slice_rc", "rc_slice", "slice_slice"] + (["rc_slice_rc"] if T else [])
    for h in hs:
        for minus in (False, True):
            for partial in (True, False):
                for nspans in (1, 2):
                    if nspans == 2 and not T and h not in ("slice", "rc_slice"):
                        continue
                    for use_offset in (False, True):
                        if use_offset and not T and (nspans == 2 or not partial or h in ("slice_slice", "slice_rc")):
                            continue
                        if not T and not partial and h in ("slice_slice", "slice_rc"):
                            continue
                        nm = f"{h}/{'minus' if minus else 'plus'}/{'partial' if partial else 'inside'}/n{nspans}/off{int(use_offset)}"
                        obs.append(Ob(nm, __name__, "mk", {"history": h, "minus": minus, "nspans": nspans, "partial": partial, "use_offset": use_offset}, timeout=1800, twins=("end", "hit"), group=h))
                        # the new-style Sequence carries its own copy of this code
                        if T or (h in ("rc_slice", "slice") and partial and (nspans == 2 or use_offset)):
                            obs.append(Ob("new/" + nm, __name__, "mk", {"history": h, "minus": minus, "nspans": nspans, "partial": partial, "use_offset": use_offset, "style": "new"}, timeout=1800, twins=("end", "hit"), group=h))
    from props import c04_aln

    for h in c04_aln.HISTORIES:
        for strand in ("+", "-"):
            obs.append(Ob(f"alignment_feature/{h}/{'minus' if strand == '-' else 'plus'}", "props.c04_aln", "mk_alignment_feature", {"history": h, "strand": strand}, timeout=3600, group="alignment", grade="realised-input"))
    return obs


def classify(name, args, cex, rep):
    return None
