"""C07 (part 2) - the ParameterController layer: after any history of scoped parameter assignments the reported value equals
that of a newly built controller given the same final settings.

A small definition graph built from the REAL classes (PositiveParamDefn with an 'edge' dimension, NonParamDefn weights,
CalcDefn, SumDefn, SelectFromDimension via across_dimension) under the REAL scope.ParameterController:
total = sum_e kappa[e] * w[e] with w = (1, 10, 100), so the total identifies which edge holds which value. A history of
assign_all("kappa", {"edge": subset}, value, independent) steps is ONE mixed-radix symbolic integer (subset bitmask, value,
independent flag per step, postponed-updates flag), realised up front (scope tuples are dict keys). Oracle: a 10-line model of
"the last assignment covering an edge wins" and of the grouping of edges into shared parameters.
"""
from __future__ import annotations

from vlib import w as W

EDGES = ("a", "b", "c")
WEIGHTS = (1, 10, 100)
VALUES = (1.0, 3.0, 5.0)


def _build():
    from cogent3.recalculation.definition import CalcDefn, NonParamDefn, PositiveParamDefn, SumDefn
    from cogent3.recalculation.scope import ParameterController

    k = PositiveParamDefn("kappa", dimensions=["edge"])
    w = NonParamDefn("w", ["edge"])
    f = CalcDefn(lambda kv, wv: kv * wv, name="f")(k, w)
    total = SumDefn(*f.across_dimension("edge", list(EDGES)), name="total")
    pc = ParameterController(total)
    for e, v in zip(EDGES, WEIGHTS):
        pc.assign_all("w", {"edge": [e]}, value=v)
    return pc


def mk_history(nsteps, nvalues=3, first_independent=True, first_mask=None):
    NV = nvalues
    RADIX = []
    for i in range(nsteps):
        # first_mask: the edge subset of the first step is a shard key (CrossHair's per-path cost grows with the size of one search)
        RADIX += [1 if (i == 0 and first_mask) else 7, NV, 2 if (i > 0 or first_independent) else 1]
    TOTAL = 2
    for r_ in RADIX:
        TOTAL *= r_

    NBLOCKS = W.nblocks(TOTAL)

    def check(code: int) -> bool:
        """
        pre: 0 <= code < NBLOCKS
        post: _
        """
        _ = NBLOCKS
        code, untraced = W.concrete(code)  # `code` numbers a block of W.BLOCK consecutive inputs (see vlib.w.nblocks)
        with untraced:
            return W.run_block(code, TOTAL, body)

    def body(code):
        postponed = code % 2
        code //= 2
        steps = []
        for _i in range(nsteps):
            if _i == 0 and first_mask:
                mask = first_mask
            else:
                mask = code % 7 + 1
                code //= 7
            val = VALUES[code % NV]
            code //= NV
            r_ind = 2 if (_i > 0 or first_independent) else 1
            indep = bool(code % r_ind)
            code //= r_ind
            steps.append(([e for i, e in enumerate(EDGES) if mask >> i & 1], val, indep))
        pc = _build()
        # model: value per edge, and the partition of the edges into shared parameters
        value = {e: 1.0 for e in EDGES}
        group = {e: 0 for e in EDGES}
        fresh = [1]

        def model_step(subset, val, indep):
            for e in subset:
                value[e] = val
                if indep:
                    group[e] = fresh[0]
                    fresh[0] += 1
            if not indep:
                for e in subset:
                    group[e] = fresh[0]
                fresh[0] += 1

        def agrees():
            want = sum(value[e] * wt for e, wt in zip(EDGES, WEIGHTS))
            if pc.get_final_result() != want:
                return False
            if pc.make_calculator().testfunction() != want:
                return False
            if pc.get_num_free_params() != len(set(group.values())):
                return False
            # export the rules, apply them to a newly built controller
            pc2 = _build()
            for rule in pc.defn_for["kappa"].get_param_rules():
                edges = rule.get("edges") or [rule["edge"]] if ("edges" in rule or "edge" in rule) else list(EDGES)
                pc2.assign_all("kappa", {"edge": list(edges)}, value=rule["init"], independent=False)
            return pc2.get_final_result() == want and pc2.get_num_free_params() == pc.get_num_free_params()

        if postponed:
            with pc.updates_postponed():
                for subset, val, indep in steps:
                    pc.assign_all("kappa", {"edge": subset}, value=val, independent=indep)
                    model_step(subset, val, indep)
            if not W.reach("postponed"):
                return False
            return bool(agrees()) and bool(W.reach("end"))
        for subset, val, indep in steps:
            pc.assign_all("kappa", {"edge": subset}, value=val, independent=indep)
            model_step(subset, val, indep)
            if not agrees():
                return False
        return bool(W.reach("end"))

    return check
