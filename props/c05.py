"""C05 — substitution processes are valid, calibrated Markov processes (rate-matrix part).

Engine E2 (psx): the real calcQ / calc_exchangeability_matrix / motif-prob-model code runs on
z3 Real terms (symbolic motif probabilities and rate parameters); z3 decides the identities.
"""
from __future__ import annotations

import time
import types

import numpy
import z3

from vlib import psx
from vlib import w as W
from vlib.core import Ob

PROPERTY_ID = "C05"
ENGINE = "E2 psx (z3 Real terms through the real numpy code)"
TECHNIQUE = "real calcQ and motif-probability code executed on z3 Real terms (proxy symbolic execution); polynomial identities (row sums, sign, calibration, stationarity, detailed balance, published exchangeability pattern) discharged by z3 QF_NRA; counterexamples replayed with floats on the real model"
CLAIM = (
    "for every named nucleotide model (and dinucleotide instantiations) and ALL motif probabilities > 0 summing to 1 and ALL rate parameters > 0: "
    "Q has zero row sums, non-negative off-diagonals that vanish exactly off the instantaneous mask, expected rate 1 at the word probabilities, "
    "stationarity / detailed balance where the class promises them, and the published exchangeability pattern; rate-class multipliers average to one; "
    "the closed-form TN93/HKY85/F81 transition matrix is row-stochastic, reversible and the identity at t=0 (EXP uninterpreted + EXP(0)=1)."
)

TS = {("A", "G"), ("G", "A"), ("C", "T"), ("T", "C")}


def _model(name):
    from cogent3.evolve import models as M
    from cogent3.evolve import substitution_model as SM

    if name in M.models:
        return M.get_model(name)
    if name.startswith("dinuc:"):
        _, preds, mprob = name.split(":")
        from cogent3.evolve.predicate import MotifChange

        kappa = (MotifChange("A", "G") | MotifChange("C", "T")).aliased("kappa")
        P = {"kappa": [kappa], "none": []}[preds]
        return SM.TimeReversibleDinucleotide(predicates=P, mprob_model=mprob, name=name, model_gaps=False)
    if name.startswith("codon:") or name.startswith("trinuc:"):
        kind, mprob = name.split(":")
        from cogent3.evolve.predicate import MotifChange

        kappa = (MotifChange("A", "G") | MotifChange("C", "T")).aliased("kappa")
        if kind == "codon":
            return SM.TimeReversibleCodon(predicates=[kappa], mprob_model=mprob, name=name, model_gaps=False)
        return SM.TimeReversibleTrinucleotide(predicates=[kappa], mprob_model=mprob, name=name, model_gaps=False)
    raise KeyError(name)


def _symbolic_inputs(sm):
    """(word_probs, mprobs_matrix, params, assumptions, vars)"""
    mpm = sm.mprob_model
    in_alpha = list(mpm.get_input_alphabet())
    cname = type(mpm).__name__
    assumptions = []
    allvars = {}
    if cname == "PosnSpecificMonomerProbModel":
        L = mpm.word_length
        mono = []
        for pos in range(L):
            vs = [z3.Real(f"pi{pos}_{m}") for m in in_alpha]
            for v in vs:
                assumptions.append(v > 0)
                allvars[str(v)] = v
            assumptions.append(z3.Sum(vs) == 1)
            mono.append(psx.obj_array(len(vs), lambda i, vs=vs: psx.SReal(vs[i])))
        arg = mono
    else:
        vs = [z3.Real(f"pi_{m}") for m in in_alpha]
        for v in vs:
            assumptions.append(v > 0)
            allvars[str(v)] = v
        assumptions.append(z3.Sum(vs) == 1)
        arg = psx.obj_array(len(vs), lambda i: psx.SReal(vs[i]))
    word_probs = mpm.calc_word_probs(arg)
    mprobs_matrix = mpm.calc_word_weight_matrix(arg)
    params = []
    for p in sm.parameter_order:
        v = z3.Real("par_" + str(p))
        assumptions.append(v > 0)
        allvars[str(v)] = v
        params.append(psx.SReal(v))
    return word_probs, mprobs_matrix, params, assumptions, allvars, arg


def _assumptions_only(sm):
    mpm = sm.mprob_model
    in_alpha = list(mpm.get_input_alphabet())
    out = []
    if type(mpm).__name__ == "PosnSpecificMonomerProbModel":
        for pos in range(mpm.word_length):
            vs = [z3.Real(f"pi{pos}_{m}") for m in in_alpha]
            out += [v > 0 for v in vs] + [z3.Sum(vs) == 1]
    else:
        vs = [z3.Real(f"pi_{m}") for m in in_alpha]
        out += [v > 0 for v in vs] + [z3.Sum(vs) == 1]
    out += [z3.Real("par_" + str(p)) > 0 for p in sm.parameter_order]
    return out


def _published(name, alpha, par):
    """independent table of the published exchangeabilities r[x][y] (None -> no table)"""
    def p(k):
        return par[k]

    one = z3.RealVal(1)
    r = {}
    for x in alpha:
        for y in alpha:
            if x == y:
                continue
            if name in ("JC69", "F81"):
                r[x, y] = one
            elif name in ("K80", "HKY85"):
                r[x, y] = p("kappa") if (x, y) in TS else one
            elif name == "TN93":
                if (x, y) in (("A", "G"), ("G", "A")):
                    r[x, y] = p("kappa_r")
                elif (x, y) in (("C", "T"), ("T", "C")):
                    r[x, y] = p("kappa_y")
                else:
                    r[x, y] = one
            elif name == "GTR":
                key = "/".join(sorted([x, y]))
                r[x, y] = one if key == "G/T" else p(key)
            elif name == "GN":
                r[x, y] = one if (x, y) == ("T", "G") else p(f"{x}>{y}")
            else:
                return None
    return r


def mk_Q(model, _replay=None):
    if _replay is not None:
        return _replay_Q(model, _replay)
    t0 = time.time()
    from cogent3.evolve import substitution_model as SM

    sm = _model(model)
    alpha = [str(m) for m in sm.get_alphabet()]
    N = len(alpha)
    sm._instantaneous_mask_f = sm._instantaneous_mask_f.astype(object)
    holder = {}

    def run():
        word_probs, mprobs_matrix, params, assumptions, allvars, _ = _symbolic_inputs(sm)
        holder.update(word_probs=word_probs, params=params, allvars=allvars)
        return sm.calcQ(word_probs, mprobs_matrix, *params)

    # assumptions are produced while building the inputs; collect them with a dry build outside the executor
    assumptions = _assumptions_only(sm)
    paths, stats = psx.explore(run, assumptions)
    paths = [p for p in paths]
    if len(paths) != 1 or paths[0].exc is not None:
        return {"status": "inconclusive", "detail": f"calcQ forked or raised: paths={len(paths)} exc={paths[0].exc!r}"}
    Q = paths[0].result
    A = paths[0].assertions
    word_probs, params, allvars = holder["word_probs"], holder["params"], holder["allvars"]
    w = [psx.term(x) for x in word_probs]
    q = [[psx.term(Q[i, j]) for j in range(N)] for i in range(N)]
    mask = sm._instantaneous_mask
    par = {str(k): psx.term(v) for k, v in zip(sm.parameter_order, params)}
    obligations = []
    obligations.append(("row_sums_zero", z3.And(*[z3.Sum(q[i]) == 0 for i in range(N)])))
    obligations.append(("offdiag_nonneg", z3.And(*[q[i][j] >= 0 for i in range(N) for j in range(N) if i != j])))
    obligations.append(("zero_off_mask", z3.And(*[q[i][j] == 0 for i in range(N) for j in range(N) if i != j and not mask[i, j]] or [z3.BoolVal(True)])))
    obligations.append(("positive_on_mask", z3.And(*[q[i][j] > 0 for i in range(N) for j in range(N) if i != j and mask[i, j]])))
    obligations.append(("calibrated_rate_one", z3.Sum([w[i] * (-q[i][i]) for i in range(N)]) == 1))
    obligations.append(("word_probs_distribution", z3.And(z3.Sum(w) == 1, *[x > 0 for x in w])))
    if isinstance(sm, SM.Stationary):
        for j in range(N):
            obligations.append((f"stationary_col{j}", z3.Sum([w[i] * q[i][j] for i in range(N)]) == 0))
    if isinstance(sm, SM.TimeReversible):
        for i in range(N):
            obligations.append((f"detailed_balance_row{i}", z3.And(*[w[i] * q[i][j] == w[j] * q[j][i] for j in range(N) if j > i] or [z3.BoolVal(True)])))
    # each predicate parameter multiplies exactly the cells of its mask: setting it to 1 must not change cells outside
    pub = _published(model, alpha, par) if N == 4 else None
    if pub is not None:
        stationary = isinstance(sm, SM.Stationary)
        pi = {alpha[i]: w[i] for i in range(N)}
        cells = [(i, j) for i in range(N) for j in range(N) if i != j]
        i0, j0 = cells[0]
        conj = []
        for i, j in cells[1:]:
            lhs = q[i][j] * pub[alpha[i0], alpha[j0]] * (pi[alpha[j0]] if stationary else 1)
            rhs = q[i0][j0] * pub[alpha[i], alpha[j]] * (pi[alpha[j]] if stationary else 1)
            conj.append(lhs == rhs)
        obligations.append(("published_exchangeability_pattern", z3.And(*conj)))
    if not W.reach("end"):
        # vacuity twin: the assumptions are satisfiable and Q is not identically zero
        s = z3.Solver()
        s.add(*A)
        s.add(q[0][1] != 0 if mask[0, 1] else q[0][2] != 0)
        return {"status": "cex" if str(s.check()) == "sat" else "inconclusive", "cex": {"twin": "assumptions satisfiable with non-zero Q"}}
    results = []
    nq = 0
    # Every entry of Q is (unnormalised entry) * (1 / S) with ONE shared normaliser S. For big alphabets z3 cannot see through the
    # division, so the same claims are restated on the numerators: q_ij = n_ij / S  with S > 0 proved first.
    flat = [q[i][j] for i in range(N) for j in range(N)]
    cd = psx.common_denominator_form(flat) if N > 4 else None
    if cd is not None:
        nums, S = cd
        n = [[nums[i * N + j] for j in range(N)] for i in range(N)]
        r, m, dt = psx.check_valid(A, S > 0, timeout_ms=int(W_TIMEOUT * 1000))
        nq += 1
        results.append(("normaliser_positive", r, round(dt, 2)))
        if r != "unsat":
            return {"status": "inconclusive" if r != "sat" else "cex", "detail": f"normaliser S > 0: z3 {r}", "cex": {"obligation": "normaliser_positive", "model": model, "values": {k: psx.model_float(m, v) for k, v in allvars.items()} if m is not None else {}}}
        A = list(A) + [S > 0]
        obligations = [
            ("row_sums_zero", z3.And(*[z3.Sum(n[i]) == 0 for i in range(N)])),
            ("offdiag_nonneg", z3.And(*[n[i][j] >= 0 for i in range(N) for j in range(N) if i != j])),
            ("zero_off_mask", z3.And(*[n[i][j] == 0 for i in range(N) for j in range(N) if i != j and not mask[i, j]] or [z3.BoolVal(True)])),
            ("positive_on_mask", z3.And(*[n[i][j] > 0 for i in range(N) for j in range(N) if i != j and mask[i, j]])),
            ("calibrated_rate_one", z3.Sum([w[i] * (-n[i][i]) for i in range(N)]) == S),
            ("word_probs_distribution", z3.And(z3.Sum(w) == 1, *[x > 0 for x in w])),
        ]
        if isinstance(sm, SM.Stationary):
            for j in range(N):
                obligations.append((f"stationary_col{j}", z3.Sum([w[i] * n[i][j] for i in range(N)]) == 0))
        if isinstance(sm, SM.TimeReversible):
            for i in range(N):
                obligations.append((f"detailed_balance_row{i}", z3.And(*[w[i] * n[i][j] == w[j] * n[j][i] for j in range(N) if j > i] or [z3.BoolVal(True)])))
    for nm, claim in obligations:
        r, m, dt = psx.check_valid(A, claim, timeout_ms=int(W_TIMEOUT * 1000))
        nq += 1
        results.append((nm, r, round(dt, 2)))
        if r == "sat":
            cex = {"obligation": nm, "model": model, "values": {k: psx.model_float(m, v) for k, v in allvars.items()}}
            return {"status": "cex", "cex": cex, "queries": nq, "detail": str(results)}
        if r != "unsat":
            return {"status": "inconclusive", "detail": f"{nm}: z3 {r} after {dt:.0f}s; done so far {results}", "queries": nq}
    return {"status": "holds", "queries": nq, "paths": stats["paths"], "detail": f"states={N} params={list(par)} " + str(results), "solver_s": round(time.time() - t0, 2)}


W_TIMEOUT = 300


def _replay_Q(model, cex):
    """floats on the real, unpatched model"""
    from cogent3.evolve import substitution_model as SM

    sm = _model(model)
    mpm = sm.mprob_model
    vals = cex["values"]
    in_alpha = [str(m) for m in mpm.get_input_alphabet()]
    if type(mpm).__name__ == "PosnSpecificMonomerProbModel":
        arg = [numpy.array([vals[f"pi{pos}_{m}"] for m in in_alpha]) for pos in range(mpm.word_length)]
    else:
        arg = numpy.array([vals[f"pi_{m}"] for m in in_alpha])
    w = mpm.calc_word_probs(arg)
    mm = mpm.calc_word_weight_matrix(arg)
    params = [vals["par_" + str(p)] for p in sm.parameter_order]
    Q = sm.calcQ(w, mm, *params)
    N = Q.shape[0]
    ob = cex["obligation"]
    tol = 1e-9
    bad = False
    if ob == "row_sums_zero":
        bad = abs(Q.sum(axis=1)).max() > tol
    elif ob == "offdiag_nonneg":
        bad = (Q - numpy.diag(numpy.diag(Q))).min() < -tol
    elif ob == "zero_off_mask":
        bad = any(abs(Q[i, j]) > tol for i in range(N) for j in range(N) if i != j and not sm._instantaneous_mask[i, j])
    elif ob == "positive_on_mask":
        bad = any(Q[i, j] <= 0 for i in range(N) for j in range(N) if i != j and sm._instantaneous_mask[i, j])
    elif ob == "calibrated_rate_one":
        bad = abs(-(w * numpy.diag(Q)).sum() - 1) > tol
    elif ob.startswith("stationary"):
        bad = abs(w @ Q).max() > tol
    elif ob.startswith("detailed_balance"):
        F = w[:, None] * Q
        bad = abs(F - F.T).max() > tol
    elif ob == "word_probs_distribution":
        bad = abs(w.sum() - 1) > tol or w.min() <= 0
    else:
        alpha = [str(m) for m in sm.get_alphabet()]
        par = {str(k): v for k, v in zip(sm.parameter_order, params)}

        class _P(dict):
            pass

        pub = _published(model, alpha, {k: z3.RealVal(str(v)) for k, v in par.items()})
        stationary = isinstance(sm, SM.Stationary)
        ratios = []
        for i in range(N):
            for j in range(N):
                if i != j:
                    r = float(z3.simplify(pub[alpha[i], alpha[j]]).as_fraction()) if not isinstance(pub[alpha[i], alpha[j]], float) else pub[alpha[i], alpha[j]]
                    ratios.append(Q[i, j] / (r * (w[j] if stationary else 1)))
        bad = (max(ratios) - min(ratios)) > 1e-9 * max(1, abs(max(ratios)))
    return {"status": "reproduced" if bad else "not_reproduced", "detail": f"{ob} on floats: violated={bad}"}


def mk_word_probs(model, _replay=None):
    """the word (motif) probabilities every Q is calibrated against are a probability distribution over the model's alphabet,
    for word alphabets that are NOT a full product (sense codons) as well as full k-mer alphabets"""
    t0 = time.time()
    sm = _model(model)
    mpm = sm.mprob_model
    if _replay is not None:
        in_alpha = [str(m) for m in mpm.get_input_alphabet()]
        if type(mpm).__name__ == "PosnSpecificMonomerProbModel":
            arg = [numpy.array([float(_replay[f"pi{pos}_{m}"]) for m in in_alpha]) for pos in range(mpm.word_length)]
        else:
            arg = numpy.array([float(_replay[f"pi_{m}"]) for m in in_alpha])
        w = mpm.calc_word_probs(arg)
        bad = abs(w.sum() - 1) > 1e-9 or w.min() <= 0
        return {"status": "reproduced" if bad else "not_reproduced", "detail": f"sum of word probs = {w.sum()!r} over {len(w)} words"}
    holder = {}

    def run():
        word_probs, mprobs_matrix, params, assumptions, allvars, arg = _symbolic_inputs(sm)
        holder.update(allvars=allvars)
        return word_probs, mprobs_matrix

    A = _assumptions_only(sm)
    paths, stats = psx.explore(run, A)
    if len(paths) != 1 or paths[0].exc is not None:
        return {"status": "inconclusive", "detail": f"forked or raised: {paths[0].exc!r}"}
    w = [psx.term(x) for x in paths[0].result[0]]
    if not W.reach("end"):
        return {"status": "cex", "cex": {"twin": f"{len(w)} words"}}
    nq = 0
    claims = [("sum_to_one", z3.Sum(w) == 1), ("positive", z3.And(*[x > 0 for x in w]))]
    cd = psx.common_denominator_form(w)
    if cd is not None:
        # every word probability is num_i / den with one shared denominator: state the same claim without division
        nums, den = cd
        claims = [("denominator_positive", den > 0), ("numerators_sum_to_denominator", z3.Sum(nums) == den), ("numerators_positive", z3.And(*[x > 0 for x in nums]))]
    for nm, claim in claims:
        r, m, dt = psx.check_valid(paths[0].assertions, claim, timeout_ms=600000)
        nq += 1
        if r == "sat":
            return {"status": "cex", "cex": dict({k: psx.model_float(m, v) for k, v in holder["allvars"].items()}, claim=nm), "queries": nq}
        if r != "unsat":
            return {"status": "inconclusive", "detail": f"{nm}: z3 {r} after {dt:.0f}s"}
    return {"status": "holds", "paths": 1, "queries": nq, "detail": f"{len(w)} words, input alphabet {len(list(mpm.get_input_alphabet()))}", "solver_s": round(time.time() - t0, 2)}


# ------------------------------------------------------------------ rate-class multipliers
def mk_rate_classes(kind, nbins, _replay=None):
    from cogent3.recalculation import definition as D

    t0 = time.time()
    ws = [z3.Real(f"w{i}") for i in range(nbins)]
    vs = [z3.Real(f"v{i}") for i in range(nbins)]
    assumptions = [x > 0 for x in ws + vs] + [z3.Sum(ws) == 1]
    if _replay is not None:
        wv = numpy.array([_replay[f"w{i}"] for i in range(nbins)])
        vv = numpy.array([_replay[f"v{i}"] for i in range(nbins)])
        if kind == "gamma":
            # the real GammaDefn.calc with the real scipy gdtri: the counterexample's bin probabilities, its shape and two others
            # (the stub medians of the symbolic run are not realisable as such; the identity must hold for every shape)
            bad = []
            for shape in [float(_replay.get("shape", 1.0)) if float(_replay.get("shape", 1.0)) > 0 else 1.0, 0.5, 2.0]:
                out = D.GammaDefn.calc(None, wv, shape)
                tot = float((wv * out).sum())
                if abs(tot - 1) > 1e-9 or any(out[i] > out[i + 1] + 1e-12 for i in range(nbins - 1)):
                    bad.append(f"shape={shape}: bprobs={list(wv)} rates={list(out)} sum(bprobs*rates)={tot}")
            return {"status": "reproduced" if bad else "not_reproduced", "detail": "; ".join(bad)[:500]}
        out = {"weighted": D.WeightedPartitionDefn.calc, "monotonic": D.MonotonicDefn.calc}[kind](None, wv, vv)
        bad = abs((wv * out).sum() - 1) > 1e-9 or (kind == "monotonic" and any(out[i] > out[i + 1] + 1e-12 for i in range(nbins - 1)))
        return {"status": "reproduced" if bad else "not_reproduced", "detail": str(out)}
    wa = psx.obj_array(nbins, lambda i: psx.SReal(ws[i]))
    va = psx.obj_array(nbins, lambda i: psx.SReal(vs[i]))
    if kind == "gamma":
        import cogent3.maths.stats.distribution as dist

        med = iter(vs)
        orig = dist.gdtri
        dist.gdtri = lambda a, b, p: psx.SReal(next(med))  # arbitrary positive medians: scipy is outside the claim
        try:
            paths, stats = psx.explore(lambda: D.GammaDefn.calc(None, wa, psx.real("shape")), assumptions)
        finally:
            dist.gdtri = orig
    else:
        fn = {"weighted": D.WeightedPartitionDefn.calc, "monotonic": D.MonotonicDefn.calc}[kind]
        paths, stats = psx.explore(lambda: fn(None, wa, va), assumptions)
    if len(paths) != 1 or paths[0].exc is not None:
        return {"status": "inconclusive", "detail": f"forked/raised {paths[0].exc!r}"}
    out = [psx.term(x) for x in paths[0].result]
    claim = [z3.Sum([ws[i] * out[i] for i in range(nbins)]) == 1, z3.And(*[o > 0 for o in out])]
    if kind == "monotonic":
        claim.append(z3.And(*[out[i] <= out[i + 1] for i in range(nbins - 1)] or [z3.BoolVal(True)]))
    if not W.reach("end"):
        s = z3.Solver()
        s.add(*paths[0].assertions)
        return {"status": "cex" if str(s.check()) == "sat" else "inconclusive", "cex": {"twin": "assumptions satisfiable"}}
    r, m, dt = psx.check_valid(paths[0].assertions, z3.And(*claim), timeout_ms=120000)
    if r == "sat":
        return {"status": "cex", "cex": {str(v): psx.model_float(m, v) for v in ws + vs + ([z3.Real("shape")] if kind == "gamma" else [])}, "queries": 1}
    if r != "unsat":
        return {"status": "inconclusive", "detail": f"z3 {r}"}
    return {"status": "holds", "queries": 1, "paths": 1, "solver_s": round(time.time() - t0, 2)}


# ------------------------------------------------------------------ closed-form P(t) of the "solved" nucleotide models
def _run_tn93(pi, t, a1, a2):
    from cogent3.evolve import solved_models_numba as S

    f = S.calc_TN93_P.py_func
    np_shim = types.SimpleNamespace(
        array=lambda x: psx.obj_array(len(x), lambda i: x[i] if isinstance(x[i], psx.SReal) else psx.const(x[i])),
        zeros=lambda n: psx.obj_array(n, lambda i: psx.const(0)),
    )
    math_shim = types.SimpleNamespace(exp=lambda x: x.exp() if isinstance(x, psx.SReal) else psx.const(x).exp())
    g = dict(f.__globals__)
    g["np"] = np_shim
    g["math"] = math_shim
    fn = types.FunctionType(f.__code__, g)
    result = numpy.empty((4, 4), dtype=object)
    fn(pi, t, a1, a2, result)
    return result


def mk_solved_P(nparams, _replay=None):
    t0 = time.time()
    pv = [z3.Real(f"pi{i}") for i in range(4)]
    t = z3.Real("t")
    ky, kr = z3.Real("kappa_y"), z3.Real("kappa_r")
    assumptions = [x > 0 for x in pv] + [z3.Sum(pv) == 1, t >= 0, ky > 0, kr > 0, psx.EXP(z3.RealVal(0)) == 1]
    if nparams == 0:
        assumptions += [ky == 1, kr == 1]
    elif nparams == 1:
        assumptions += [ky == kr]
    if _replay is not None:
        from cogent3.evolve.solved_models import PredefinedNucleotide
        from cogent3.evolve.predicate import MotifChange

        pi = numpy.array([_replay[f"pi{i}"] for i in range(4)])
        res = numpy.empty((4, 4))
        from cogent3.evolve import solved_models_numba as S

        S.calc_TN93_P(pi, float(_replay["t"]), float(_replay["kappa_y"]), float(_replay["kappa_r"]), res)
        bad = abs(res.sum(axis=1) - 1).max() > 1e-9 or res.min() < -1e-12 or abs(pi[:, None] * res - (pi[:, None] * res).T).max() > 1e-9
        return {"status": "reproduced" if bad else "not_reproduced", "detail": str(res)}
    pi = psx.obj_array(4, lambda i: psx.SReal(pv[i]))
    paths, stats = psx.explore(lambda: _run_tn93(pi, psx.SReal(t), psx.SReal(ky), psx.SReal(kr)), assumptions)
    if len(paths) != 1 or paths[0].exc is not None:
        return {"status": "inconclusive", "detail": f"forked/raised {paths[0].exc!r}"}
    P = [[psx.term(paths[0].result[i, j]) for j in range(4)] for i in range(4)]
    A = paths[0].assertions
    if not W.reach("end"):
        s = z3.Solver()
        s.add(*A)
        s.add(t > 0)
        return {"status": "cex" if str(s.check()) == "sat" else "inconclusive", "cex": {"twin": "assumptions satisfiable with t>0"}}
    obligations = [
        ("row_stochastic", z3.And(*[z3.Sum(P[i]) == 1 for i in range(4)])),
        ("detailed_balance", z3.And(*[pv[i] * P[i][j] == pv[j] * P[j][i] for i in range(4) for j in range(4) if j > i])),
        ("identity_at_zero", z3.Implies(t == 0, z3.And(*[P[i][j] == (1 if i == j else 0) for i in range(4) for j in range(4)]))),
        ("pi_stationary", z3.And(*[z3.Sum([pv[i] * P[i][j] for i in range(4)]) == pv[j] for j in range(4)])),
    ]
    results = []
    for nm, claim in obligations:
        r, m, dt = psx.check_valid(A, claim, timeout_ms=300000)
        results.append((nm, r, round(dt, 2)))
        if r == "sat":
            vals = {str(v): psx.model_float(m, v) for v in pv + [t, ky, kr]}
            return {"status": "cex", "cex": dict(vals, obligation=nm), "detail": str(results)}
        if r != "unsat":
            return {"status": "inconclusive", "detail": f"{nm}: z3 {r}; {results}"}
    return {"status": "holds", "queries": len(obligations), "paths": 1, "detail": str(results), "solver_s": round(time.time() - t0, 2)}


# ------------------------------------------------------------------ which exponentiator computes P = exp(Qt)
def mk_exp_dispatch():
    """ExpDefn.calc picks the matrix-exponential back end from the `expm` setting. The back ends are LAPACK / Pade code (outside);
    what is decided here (CrossHair) is the choice: with the default 'either' the CHECKED eigen route is used and a failed precision
    check falls back to Pade - an unchecked eigen result is never returned; 'checked' lets the failure propagate; 'eigen' is
    unchecked; 'pade' is Pade. Back ends are stubs; whether the precision check fails is a symbolic boolean."""

    def check(which: int, eig_fails: bool) -> bool:
        """
        pre: 0 <= which <= 3
        post: _
        """
        import warnings

        from cogent3.evolve import substitution_calculation as SC

        expm = ("either", "eigen", "checked", "pade")[which]

        def checked(Q):
            if eig_fails:
                raise ArithmeticError("eigen failed precision test")
            return "checked-eigen"

        saved = (SC.FastExponentiator, SC.CheckedExponentiator, SC.PadeExponentiator)
        SC.FastExponentiator, SC.CheckedExponentiator, SC.PadeExponentiator = (lambda Q: "unchecked-eigen"), checked, (lambda Q: "pade")
        try:
            with warnings.catch_warnings():
                warnings.simplefilter("ignore")
                try:
                    got = SC.ExpDefn.calc(None, expm)("Q")
                except ArithmeticError:
                    got = "raised"
        finally:
            SC.FastExponentiator, SC.CheckedExponentiator, SC.PadeExponentiator = saved
        if not W.reach("end"):
            return False
        if eig_fails and not W.reach("fails"):
            return False
        want = {"either": "pade" if eig_fails else "checked-eigen", "eigen": "unchecked-eigen", "checked": "raised" if eig_fails else "checked-eigen", "pade": "pade"}[expm]
        return got == want

    return check


ENCODED = [
    ("src/cogent3/evolve/substitution_calculation.py", ["ExpDefn.calc", "_EigenPade.__call__"]),
    ("src/cogent3/evolve/substitution_model.py", ["_ContinuousSubstitutionModel.calcQ", "StationaryQ.calcQ", "Parametric.calc_exchangeability_matrix", "Parametric.__init__ (predicate masks, concrete)"]),
    ("src/cogent3/evolve/ns_substitution_model.py", ["NonReversibleNucleotide / StrandSymmetric (calcQ inherited)"]),
    ("src/cogent3/evolve/motif_prob_model.py", ["SimpleMotifProbModel.calc_word_probs/calc_word_weight_matrix", "MonomerProbModel.*", "PosnSpecificMonomerProbModel.*", "ConditionalMotifProbModel.calc_word_weight_matrix"]),
    ("src/cogent3/evolve/models.py", ["JC69", "F81", "K80", "HKY85", "TN93", "GTR", "GN", "ssGN (definitions -> masks)"]),
    ("src/cogent3/recalculation/definition.py", ["WeightedPartitionDefn.calc", "MonotonicDefn.calc", "GammaDefn.calc (gdtri stubbed)"]),
    ("src/cogent3/evolve/solved_models_numba.py", ["calc_TN93_P (.py_func)"]),
]
BOUNDS = {
    "quick": ["nucleotide models JC69 F81 K80 HKY85 TN93 GTR GN ssGN (4 states); dinucleotide (16 states) with mprob_model=monomer (claims restated on the numerators of the shared normaliser)",
              "all motif probabilities (>0, sum 1) and all rate parameters (>0): unbounded reals", "word probabilities of codon (61 sense codons) and trinucleotide (64) alphabets under all four motif-probability models", "rate classes: 2..4 bins", "per-query z3 budget 300 s"],
    "thorough": ["as quick + dinucleotide with mprob_model in {tuple, monomers, conditional}; codon (61-state) Q matrices as OPTIONAL obligations (attempted under the cap; reported, not counted, when z3 gives up)", "all motif probabilities and rate parameters: unbounded reals", "rate classes: 2..5 bins", "per-query z3 budget 300 s"],
}
ASSUMPTIONS = [
    "exact real arithmetic stands in for IEEE floats: the claim is about the formula the code implements, not rounding",
    "float constants in the code are lifted to the nearest rational with denominator <= 1e6 (refused if not within 1e-12)",
    "model objects (predicates -> masks) are built concretely by the real constructors; _instantaneous_mask_f is viewed as an object array so symbolic parameters can multiply into it",
    "GammaDefn: scipy's gdtri replaced by arbitrary positive values (the normalisation identity is what is checked)",
    "closed-form P(t): EXP is uninterpreted with the single axiom EXP(0)=1; numba compilation of calc_TN93_P trusted (its .py_func is executed)",
]
OUTSIDE = ["P(t)=exp(Qt) via eigen/Pade/Taylor back-ends (LAPACK / C): row-stochasticity, semigroup, back-end agreement", "codon (61-state) and protein models", "discrete-time models BH/DT", "float rounding"]
TRUSTED = ["vlib/psx.py proxy executor", "the published-definition tables in props/c05.py"]

NUC = ["JC69", "F81", "K80", "HKY85", "TN93", "GTR", "GN", "ssGN"]


def obligations(tier):
    T = tier == "thorough"
    obs = []
    for m in NUC:
        obs.append(Ob(f"Q/{m}", __name__, "mk_Q", {"model": m}, kind="direct", timeout=1200, group="Q"))
    dinuc = ["dinuc:kappa:monomer"] + (["dinuc:kappa:tuple", "dinuc:kappa:monomers", "dinuc:kappa:conditional", "dinuc:none:tuple"] if T else [])
    for m in dinuc:
        obs.append(Ob(f"Q/{m}", __name__, "mk_Q", {"model": m}, kind="direct", timeout=2400, group="Q"))
    if T:
        # 61-state codon models: attempted under the cap, reported, never counted unless z3 finishes
        for m in ("codon:tuple", "codon:monomer"):
            obs.append(Ob(f"Q/{m}", __name__, "mk_Q", {"model": m}, kind="direct", timeout=3600, group="Q", optional=True))
    for kind in ("codon", "trinuc"):
        for mprob in ("monomer", "monomers", "conditional", "tuple"):
            obs.append(Ob(f"word_probs/{kind}:{mprob}", __name__, "mk_word_probs", {"model": f"{kind}:{mprob}"}, kind="direct", timeout=1200, group="wordprobs"))
    for kind in ("weighted", "monotonic", "gamma"):
        for n in ([2, 3, 4, 5] if T else [2, 3, 4]):
            obs.append(Ob(f"rate_classes/{kind}/n{n}", __name__, "mk_rate_classes", {"kind": kind, "nbins": n}, kind="direct", timeout=300, group="bins"))
    for n in (0, 1, 2):
        obs.append(Ob(f"solved_P/{['F81','HKY85','TN93'][n]}", __name__, "mk_solved_P", {"nparams": n}, kind="direct", timeout=900, group="P"))
    obs.append(Ob("exp_dispatch", __name__, "mk_exp_dispatch", {}, timeout=300, twins=("end", "fails"), group="expm"))
    return obs


def classify(name, args, cex, rep):
    return None
