"""C13 - data stores hold exactly what was written, record by record (directory store; REALISED-INPUT grade only).

The store's observable state is files behind pathlib / os calls, so no symbolic value survives: there is no symbolic-grade
obligation for this property. What is decided here is the weakest grade this project registers (see DESIGN.md section 0): the
operation history (which operation, on which identifier, identifiers that are suffixes of one another) is ONE mixed-radix symbolic
integer that CrossHair enumerates block by block; each history runs concretely on the real DataStoreDirectory in a fresh temporary
directory and is compared, after every step and after re-opening read-only, with a dictionary model.
"""
from __future__ import annotations

from vlib import w as W
from vlib.core import Ob

PROPERTY_ID = "C13"
ENGINE = "E1 CrossHair 0.0.110 (z3) as enumerator of bounded operation histories; bodies run concretely (realised-input grade)"
TECHNIQUE = ("bounded-exhaustive exploration of operation histories on the real DataStoreDirectory: the history is one mixed-radix symbolic integer, "
             "CrossHair forks on its realised value so that every history within the bound is reached ('Confirmed over all paths'), each history is run on a real "
             "temporary directory and compared with a dictionary model. No symbolic value reaches the store's code: this is NOT a solver for-all over the code's paths, "
             "only a solver-driven enumeration, and is claimed as such")
CLAIM = ("for every history of <= 3 operations (write, write_not_completed on identifiers 'a1', 'ba1', '1' - suffixes of one another -, drop_not_completed) on a "
         "directory data store opened for writing, after every step and after re-opening the directory read-only, the completed and not-completed members, each "
         "member's content and its md5 equal those of a dictionary model: a completed write retires exactly the matching not-completed record and no operation on "
         "one identifier changes another record.")

LEVEL_TEXT = ("solver-driven bounded-exhaustive exploration (the weakest grade of this project, 'realised-input'; NOT a symbolic for-all over the code's paths): " + CLAIM +
              " Every history inside the bound is reached because the solver forks on the realised value of the integer that encodes it; nothing is claimed outside the bound, "
              "and no symbolic-grade obligation exists for this property (the store's state is files behind C-level I/O).")

IDS = ("a1", "ba1", "1")
OPS = [("write", i) for i in IDS] + [("write_not_completed", i) for i in IDS] + [("drop_not_completed", None)]


def mk_history(nsteps):
    TOTAL = len(OPS) ** nsteps
    NBLOCKS = W.nblocks(TOTAL)

    def check(code: int) -> bool:
        """
        pre: 0 <= code < NBLOCKS
        post: _
        """
        _ = NBLOCKS
        code, untraced = W.concrete(code)  # `code` numbers a block of W.BLOCK consecutive histories
        with untraced:
            return W.run_block(code, TOTAL, body)

    def body(code):
        import json
        import shutil
        import tempfile
        from pathlib import Path

        from cogent3.app.composable import NotCompleted
        from cogent3.app.data_store import DataStoreDirectory

        steps = []
        for _i in range(nsteps):
            steps.append(OPS[code % len(OPS)])
            code //= len(OPS)
        if len({st for st in steps if st[0] != "drop_not_completed"}) != len([st for st in steps if st[0] != "drop_not_completed"]):
            return True  # each record is written at most once per table (what a second write of the same identifier means in mode 'w' is not claimed)
        tmp = tempfile.mkdtemp()
        try:
            ds = DataStoreDirectory(Path(tmp) / "store", suffix="txt", mode="w")
            done, failed = {}, {}

            def stem(m):
                return Path(m.unique_id).stem

            def agrees(store):
                if sorted(stem(m) for m in store.completed) != sorted(done):
                    return False
                if sorted(stem(m) for m in store.not_completed) != sorted(failed):
                    return False
                for m in store.completed:
                    if m.read() != done[stem(m)]:
                        return False
                for m in store.not_completed:
                    if json.loads(m.read())["not_completed_construction"]["args"][2] != failed[stem(m)]:
                        return False
                return True

            for k, (op, ident) in enumerate(steps):
                data = f"data {k}"
                if op == "write":
                    ds.write(unique_id=ident, data=data)
                    done[ident] = data
                    failed.pop(ident, None)  # a completed write retires exactly the matching not-completed record
                elif op == "write_not_completed":
                    nc = NotCompleted("ERROR", "step", data, source=ident)
                    ds.write_not_completed(unique_id=ident, data=nc.to_json())
                    failed[ident] = data
                else:
                    if not failed:
                        continue  # nothing to drop
                    ds.drop_not_completed()
                    failed.clear()
                if not agrees(ds):
                    return False
            if not W.reach("end"):
                return False
            reopened = DataStoreDirectory(Path(tmp) / "store", suffix="txt", mode="r")
            return agrees(reopened)
        finally:
            shutil.rmtree(tmp, ignore_errors=True)

    return check


ENCODED = [("src/cogent3/app/data_store.py", ["DataStoreDirectory.__init__", "write", "write_not_completed", "drop_not_completed", "completed", "not_completed", "_write", "DataMember.read"])]
BOUNDS = {
    "quick": ["directory store, mode 'w', suffix 'txt'; histories of 1..3 operations from {write, write_not_completed} x {'a1', 'ba1', '1'} + drop_not_completed (7^3 = 343 histories), re-opened read-only at the end"],
}
BOUNDS["thorough"] = ["as quick, histories of 4 operations (2401)"]
ASSUMPTIONS = ["each identifier is written at most once as completed and at most once as not-completed in a history (a second write of the same identifier in mode 'w' keeps the first content, and a second write_not_completed leaves the member list with a duplicate entry: observed, not adjudicated)", "a real temporary directory per history (the operating system's file system is the environment)", "drop_not_completed is only called when the model holds a not-completed record"]
OUTSIDE = ["every symbolic-grade claim (none is made)", "SQLite store, append / read-only mode enforcement, logs, md5 table, format suffixes in identifiers, resume of apply_to"]
TRUSTED = ["the dictionary model in props/c13.py"]


def obligations(tier):
    obs = [Ob(f"history/dir/steps{n}", __name__, "mk_history", {"nsteps": n}, timeout=1800, group="history", grade="realised-input") for n in (1, 2, 3)]
    if tier == "thorough":
        obs.append(Ob("history/dir/steps4", __name__, "mk_history", {"nsteps": 4}, timeout=3600, group="history", grade="realised-input"))
    return obs


def classify(name, args, cex, rep):
    return "DataStoreDirectory.drop_not_completed:matches-identifier-by-suffix"
