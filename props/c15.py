"""C15 — distance estimators and distance-based trees are exact on exact data.

Engine E2 (psx): the real estimator / NJ / UPGMA code runs on z3 Real proxies.
"""
from __future__ import annotations

import itertools
import time

import numpy
import z3

from vlib import psx
from vlib import w as W
from vlib.core import Ob

PROPERTY_ID = "C15"
ENGINE = "E2 psx (z3 Real terms through the real numpy code) + E1 CrossHair for the duplicate expansion"
TECHNIQUE = "proxy symbolic execution of the real estimator / NJ / UPGMA code on z3 Real terms with forking on every comparison; identities decided by z3 (LOG uninterpreted, matched modulo provably equal arguments); counterexamples replayed with floats"
CLAIM = (
    "p-distance / JC69 / TN93 from a symbolic count matrix equal the published formulas and are symmetric; for the additive matrix of every binary "
    "tree shape within bounds and ALL positive branch lengths NJ's score matrix is minimal only at cherries, join() returns the true pendant lengths and the "
    "additive matrix of the reduced tree, the final step returns the three true lengths; the real UPGMA_cluster run end-to-end returns the generating ultrametric tree."
)


# ---------------------------------------------------------------- estimators
def _count_matrix():
    vs = [[z3.Real(f"n{i}{j}") for j in range(4)] for i in range(4)]
    m = psx.obj_array((4, 4), lambda i, j: psx.SReal(vs[i][j]))
    flat = [v for r in vs for v in r]
    return vs, m, [v >= 0 for v in flat], flat


def _tn93_args():
    from cogent3.evolve.fast_distance import TN93Pair

    c = TN93Pair()
    alpha = list(c.moltype)  # order of states in the count matrix
    return c, [str(a) for a in alpha]


def _spec_tn93(vs, alpha):
    """Tamura & Nei 1993 eq. as published, written from the state names (not from the code's index tables)"""
    idx = {a: i for i, a in enumerate(alpha)}
    T = "T" if "T" in idx else "U"
    tot = z3.Sum([v for r in vs for v in r])
    f = {a: (z3.Sum(vs[idx[a]]) + z3.Sum([vs[k][idx[a]] for k in range(4)])) / (2 * tot) for a in alpha}
    gR, gY = f["A"] + f["G"], f["C"] + f[T]
    P1 = (vs[idx["A"]][idx["G"]] + vs[idx["G"]][idx["A"]]) / tot
    P2 = (vs[idx["C"]][idx[T]] + vs[idx[T]][idx["C"]]) / tot
    diffs = z3.Sum([vs[i][j] for i in range(4) for j in range(4) if i != j]) / tot
    Qv = diffs - P1 - P2
    k1 = 2 * f["A"] * f["G"] / gR
    k2 = 2 * f[T] * f["C"] / gY
    k3 = 2 * (gR * gY - f["A"] * f["G"] * gY / gR - f[T] * f["C"] * gR / gY)
    w1 = 1 - P1 / k1 - Qv / (2 * gR)
    w2 = 1 - P2 / k2 - Qv / (2 * gY)
    w3 = 1 - Qv / (2 * gR * gY)
    dist = -k1 * psx.LOG(w1) - k2 * psx.LOG(w2) - k3 * psx.LOG(w3)
    return dict(total=tot, p=diffs, dist=dist, w=(w1, w2, w3))


def _tn93_float(m, alpha):
    """Tamura & Nei 1993 on floats, from the state names (independent of the code's index tables); None when undefined"""
    import math

    idx = {a: i for i, a in enumerate(alpha)}
    T = "T" if "T" in idx else "U"
    tot = m.sum()
    f = {a: (m[idx[a]].sum() + m[:, idx[a]].sum()) / (2 * tot) for a in alpha}
    gR, gY = f["A"] + f["G"], f["C"] + f[T]
    if min(f.values()) <= 0:
        return "skip"
    P1 = (m[idx["A"], idx["G"]] + m[idx["G"], idx["A"]]) / tot
    P2 = (m[idx["C"], idx[T]] + m[idx[T], idx["C"]]) / tot
    diffs = (tot - sum(m[i, i] for i in range(4))) / tot
    Q = diffs - P1 - P2
    k1 = 2 * f["A"] * f["G"] / gR
    k2 = 2 * f[T] * f["C"] / gY
    k3 = 2 * (gR * gY - f["A"] * f["G"] * gY / gR - f[T] * f["C"] * gR / gY)
    w1 = 1 - P1 / k1 - Q / (2 * gR)
    w2 = 1 - P2 / k2 - Q / (2 * gY)
    w3 = 1 - Q / (2 * gR * gY)
    if w1 <= 0 or w2 <= 0 or w3 <= 0:
        return None
    return -k1 * math.log(w1) - k2 * math.log(w2) - k3 * math.log(w3)


def _atom_diff(t):
    """normalise an arithmetic atom to (kind, D) meaning D <= 0 / D < 0 / D == 0"""
    k = t.decl().kind()
    if t.num_args() != 2:
        return None, None
    a, b = t.arg(0), t.arg(1)
    if k == z3.Z3_OP_LE:
        return "le", a - b
    if k == z3.Z3_OP_GE:
        return "le", b - a
    if k == z3.Z3_OP_LT:
        return "lt", a - b
    if k == z3.Z3_OP_GT:
        return "lt", b - a
    if k == z3.Z3_OP_EQ:
        return "eq", a - b
    return None, None


def mk_estimator(which, _replay=None):
    from cogent3.evolve import fast_distance as F

    t0 = time.time()
    vs, m, assumptions, flat = _count_matrix()
    c, alpha = _tn93_args()
    if which == "tn93":
        # frequencies of every base positive (otherwise the published formula itself divides by zero)
        for a in range(4):
            assumptions.append(z3.Sum(vs[a]) + z3.Sum([vs[k][a] for k in range(4)]) > 0)

    def run(mat):
        if which == "hamming":
            return F._hamming(mat)
        if which == "jc69":
            return F._jc69_from_matrix(mat)
        return F._tn93_from_matrix(mat, None, c.pur_indices, c.pyr_indices, c.pur_coords, c.pyr_coords, c.tv_coords)

    if _replay is not None:
        mat = numpy.array([[float(_replay[f"n{i}{j}"]) for j in range(4)] for i in range(4)])
        got = run(mat.copy())
        got_t = run(mat.T.copy())
        import math

        tot = mat.sum()
        bad = []
        if tot == 0:
            if got[0] is not None:
                bad.append("total==0 not invalid")
        else:
            p = (tot - numpy.trace(mat)) / tot
            if which == "hamming":
                want = tot - numpy.trace(mat)
            elif which == "jc69":
                want = None if p >= 0.75 else -0.75 * math.log(1 - 4 * p / 3)
            else:
                want = _tn93_float(mat, alpha)
            if want != "skip":
                if (want is None) != (got[2] is None) or (want is not None and abs(got[2] - want) > 1e-9 * max(1, abs(want))):
                    bad.append(f"dist {got[2]} != formula {want}")
            if (got[2] is None) != (got_t[2] is None) or (got[2] is not None and abs(got[2] - got_t[2]) > 1e-9 * max(1, abs(got[2]))):
                bad.append(f"not symmetric {got[2]} vs {got_t[2]}")
        return {"status": "reproduced" if bad else "not_reproduced", "detail": "; ".join(bad)}

    paths, stats = psx.explore(lambda: run(m.copy()), assumptions, timeout_ms=3000)
    if not W.reach("end"):
        ok = any(p.exc is None and p.result[2] is not None for p in paths)
        return {"status": "cex" if ok else "inconclusive", "cex": {"twin": f"{len(paths)} paths, a valid-distance path exists"}}
    tot = z3.Sum(flat)
    diffs = tot - z3.Sum([vs[i][i] for i in range(4)])
    vsT = [[vs[j][i] for j in range(4)] for i in range(4)]
    if which == "hamming":
        spec, specp, conds = diffs, diffs / tot, [tot == 0]
        specT = tot - z3.Sum([vsT[i][i] for i in range(4)])
    elif which == "jc69":
        spec = -(z3.RealVal(3) / 4) * psx.LOG(1 - (z3.RealVal(4) / 3) * (diffs / tot))
        specp, conds = diffs / tot, [tot == 0, diffs / tot >= z3.RealVal(3) / 4]
        specT = spec
    else:
        sp = _spec_tn93(vs, alpha)
        spec, specp = sp["dist"], sp["p"]
        conds = [tot == 0] + [w <= 0 for w in sp["w"]]
        specT = _spec_tn93(vsT, alpha)["dist"]
    nq = stats["queries"]
    base = assumptions
    seen_valid = seen_invalid = 0

    def fail(mdl, why):
        vals = {str(v): (psx.model_float(mdl, v) if mdl is not None else 1.0) for v in flat}
        return {"status": "cex", "cex": vals, "queries": nq, "detail": why}

    # (0) the published formula itself is symmetric in the two sequences
    r, info = psx.prove_equal_modulo_uf(base + [tot > 0], spec, specT)
    nq += info["queries"]
    if r != "unsat":
        return {"status": "inconclusive", "detail": f"spec symmetry: z3 {r}"}
    for p in paths:
        if p.exc is not None:
            s = z3.Solver()
            s.add(*p.assertions)
            s.check()
            return fail(s.model(), f"raised {p.exc!r}")
        total, pp, dist, var = p.result
        # (1) the code's sequence of invalid-domain tests is the documented one, test by test
        if len(p.decisions) > len(conds):
            return {"status": "inconclusive", "detail": f"{len(p.decisions)} decisions but {len(conds)} documented conditions"}
        pre = list(base)
        for k, (dec, val) in enumerate(p.decisions):
            ka, da = _atom_diff(dec)
            kb, db = _atom_diff(conds[k])
            if ka == kb and ka is not None:
                # same comparison: equal left-hand sides is sufficient (and much easier for z3 than the iff)
                r, mdl, dt = psx.check_valid(pre, da == db, timeout_ms=120000)
                if r != "unsat":
                    r, mdl, dt = psx.check_valid(pre, dec == conds[k], timeout_ms=120000)
            else:
                r, mdl, dt = psx.check_valid(pre, dec == conds[k], timeout_ms=120000)
            nq += 1
            if r == "sat":
                return fail(mdl, f"domain test {k} differs from the documented condition")
            if r != "unsat":
                return {"status": "inconclusive", "detail": f"domain test {k}: z3 {r}"}
            pre.append(conds[k] if val else z3.Not(conds[k]))
        took_invalid = any(v for _, v in p.decisions)
        if (dist is None) != took_invalid:
            return fail(None, "returned value does not match the branch taken")
        if dist is None:
            seen_invalid += 1
            continue
        seen_valid += 1
        # (2) value = published formula (LOG matched modulo provably equal arguments)
        r, info = psx.prove_equal_modulo_uf(base + [tot > 0], psx.term(dist), spec)
        nq += info["queries"]
        if r == "sat":
            return fail(info["model"], "distance differs from the published formula")
        if r != "unsat":
            return {"status": "inconclusive", "detail": f"dist vs formula: z3 {r} ({info['matched']} LOG matched of {info['apps']})"}
        r, mdl, dt = psx.check_valid(base + [tot > 0], z3.And(psx.term(pp) == specp, psx.term(total) == tot), timeout_ms=120000)
        nq += 1
        if r == "sat":
            return fail(mdl, "p / total differ")
        if r != "unsat":
            return {"status": "inconclusive", "detail": f"p/total: z3 {r}"}
    if not seen_valid:
        return {"status": "inconclusive", "detail": "no valid path"}
    return {"status": "holds", "paths": stats["paths"], "queries": nq, "detail": f"valid paths={seen_valid} invalid paths={seen_invalid}; code==formula for every matrix, and the formula is symmetric, hence so is the code",
            "solver_s": round(time.time() - t0, 2)}


# ---------------------------------------------------------------- neighbour joining
def _binary_unrooted(n):
    """binary rooted shapes from the C09 enumerator, read as unrooted trees (root edge merged)"""
    from props import c09

    out = []
    for s in c09.all_shapes(n, n):
        from cogent3 import make_tree

        t = make_tree(treestring=s["newick"])
        if all(len(x.children) in (0, 2) for x in t.traverse()):
            out.append(s)
    return out


def _tree_edges(shape):
    """adjacency of the unrooted tree with one symbolic length per edge.
    returns (adj: node -> [(nbr, edge id)], tips, n_edges)"""
    from cogent3 import make_tree

    t = make_tree(treestring=shape["newick"])
    adj = {}
    eid = 0

    def add(a, b, e):
        adj.setdefault(a, []).append((b, e))
        adj.setdefault(b, []).append((a, e))

    kids = t.children
    # merge the two root edges into one
    add(kids[0].name, kids[1].name, eid)
    eid += 1
    for node in t.traverse(include_self=False):
        for c in node.children:
            add(node.name, c.name, eid)
            eid += 1
    return adj, shape["tips"], eid


def _dist(adj, lens, a, b):
    """path length between two nodes"""
    stack = [(a, None, 0)]
    while stack:
        x, par, d = stack.pop()
        if x == b:
            return d
        for y, e in adj[x]:
            if y != par:
                stack.append((y, x, d + lens[e]))
    raise KeyError((a, b))


def _cherries(adj, tips):
    ch = []
    for a, b in itertools.combinations(tips, 2):
        pa = adj[a][0][0]
        pb = adj[b][0][0]
        if pa == pb:
            ch.append((a, b, pa))
    return ch


def mk_nj_step(shape_id, n, _replay=None):
    """one NJ iteration on the additive matrix of a binary tree with n tips: (i) score matrix strictly smaller at some cherry than at
    every non-cherry pair; (ii) join(cherry) gives the two pendant lengths and the additive matrix of the reduced tree."""
    from cogent3.phylo.nj import LightweightTreeTip, PartialTree

    t0 = time.time()
    shape = [s for s in _binary_unrooted(n) if s["id"] == shape_id][0]
    adj, tips, ne = _tree_edges(shape)
    lv = [z3.Real(f"l{i}") for i in range(ne)]
    assumptions = [v > 0 for v in lv]
    cherries = _cherries(adj, tips)
    L = len(tips)

    def build(lens, wrap):
        d = numpy.zeros((L, L), dtype=object)
        for i, x in enumerate(tips):
            for j, y in enumerate(tips):
                d[i, j] = wrap(0) if i == j else wrap(_dist(adj, lens, x, y))
        return d

    if _replay is not None:
        lens = [float(_replay[f"l{i}"]) for i in range(ne)]
        d = build(lens, float).astype(float)
        pt = PartialTree(d, [LightweightTreeTip(x) for x in tips], [frozenset([x]) for x in tips], 0.0)
        Q = pt.get_dist_saved_join_score_matrix()
        best = min((Q[i, j], i, j) for i in range(L) for j in range(L) if i != j)
        pair = (tips[best[1]], tips[best[2]])
        is_cherry = any({a, b} == set(pair) for a, b, _ in cherries)
        bad = [] if is_cherry else [f"minimum of score matrix at non-cherry {pair}"]
        a, b, par = cherries[0]
        j = pt.join(tips.index(a), tips.index(b))
        for ln, nd in j.nodes[tips.index(a)]:
            want = lens[adj[str(nd)][0][1]]
            if abs(ln - want) > 1e-9 * max(1, want):
                bad.append(f"pendant length {nd}: {ln} != {want}")
        return {"status": "reproduced" if bad else "not_reproduced", "detail": "; ".join(bad)}

    def run():
        lens = [psx.SReal(v) for v in lv]
        d = build(lens, lambda x: x if isinstance(x, psx.SReal) else psx.const(x))
        pt = PartialTree(d, [LightweightTreeTip(x) for x in tips], [frozenset([x]) for x in tips], psx.const(0))
        Q = pt.get_dist_saved_join_score_matrix()
        joined = []
        for a, b, par in cherries:
            joined.append((a, b, par, pt.join(tips.index(a), tips.index(b))))
        return Q, joined

    paths, stats = psx.explore(run, assumptions)
    if not W.reach("end"):
        return {"status": "cex" if any(p.exc is None for p in paths) else "inconclusive", "cex": {"twin": f"{len(paths)} paths reach the end; cherries={len(cherries)}"}}
    nq = stats["queries"]
    for p in paths:
        if p.exc is not None:
            return {"status": "cex", "cex": {"raised": repr(p.exc)}}
        Q, joined = p.result
        A = p.assertions
        claims = []
        cherry_idx = [(tips.index(a), tips.index(b)) for a, b, _ in cherries]
        cset = {frozenset(x) for x in cherry_idx}
        for i in range(L):
            for j in range(L):
                if i != j and frozenset((i, j)) not in cset:
                    claims.append(z3.Or(*[psx.term(Q[a, b]) < psx.term(Q[i, j]) for a, b in cherry_idx]))
        for i in range(L):
            for j in range(L):
                claims.append(psx.term(Q[i, j]) == psx.term(Q[j, i]))
        for a, b, par, res in joined:
            ia = tips.index(a)
            node = res.nodes[ia]
            want = {a: lv[adj[a][0][1]], b: lv[adj[b][0][1]]}
            if len(node) != 2:
                claims.append(z3.BoolVal(False))
                continue
            for ln, nd in node:
                claims.append(psx.term(ln) == want[str(nd)])
            # reduced matrix = additive matrix of the tree with the cherry replaced by its parent
            names = [par if isinstance(x, frozenset) else str(x) for x in res.nodes]
            if len(names) != L - 1 or sorted(names) != sorted([t for t in tips if t not in (a, b)] + [par]):
                claims.append(z3.BoolVal(False))
                continue
            for x in range(L - 1):
                for y in range(L - 1):
                    want_d = z3.RealVal(0) if x == y else _dist(adj, lv, names[x], names[y])
                    claims.append(psx.term(res.d[x, y]) == want_d)
            # tip sets follow the nodes
            for x in range(L - 1):
                ts = res.tips[x]
                if names[x] == par:
                    if ts != frozenset([a, b]):
                        claims.append(z3.BoolVal(False))
                elif ts != frozenset([names[x]]):
                    claims.append(z3.BoolVal(False))
        r, m, dt = psx.check_valid(A, z3.And(*claims), timeout_ms=300000)
        nq += 1
        if r == "sat":
            return {"status": "cex", "cex": {f"l{i}": psx.model_float(m, lv[i]) for i in range(ne)}, "queries": nq}
        if r != "unsat":
            return {"status": "inconclusive", "detail": f"z3 {r}"}
    return {"status": "holds", "paths": stats["paths"], "queries": nq, "detail": f"tips={L} cherries={len(cherries)}", "solver_s": round(time.time() - t0, 2)}


def mk_nj_final(_replay=None):
    """three-node star: asScoreTreeTuple returns the three true lengths"""
    from cogent3.phylo.nj import LightweightTreeTip, PartialTree

    t0 = time.time()
    lv = [z3.Real(f"l{i}") for i in range(3)]
    if _replay is not None:
        a, b, c = [float(_replay[f"l{i}"]) for i in range(3)]
        d = numpy.array([[0, a + b, a + c], [a + b, 0, b + c], [a + c, b + c, 0]], dtype=float)
        pt = PartialTree(d, [LightweightTreeTip(x) for x in "abc"], [frozenset([x]) for x in "abc"], 0.0)
        score, tree = pt.asScoreTreeTuple()
        got = {n.name: n.length for n in tree.tips()}
        bad = [k for k, v in zip("abc", (a, b, c)) if abs(got[k] - v) > 1e-9 * max(1, v)]
        return {"status": "reproduced" if bad else "not_reproduced", "detail": str(got)}

    def run():
        a, b, c = [psx.SReal(v) for v in lv]
        z = psx.const(0)
        d = numpy.array([[z, a + b, a + c], [a + b, z, b + c], [a + c, b + c, z]], dtype=object)
        pt = PartialTree(d, [LightweightTreeTip(x) for x in "abc"], [frozenset([x]) for x in "abc"], psx.const(0))
        return pt.asScoreTreeTuple()

    paths, stats = psx.explore(run, [v > 0 for v in lv])
    if not W.reach("end"):
        return {"status": "cex" if any(p.exc is None for p in paths) else "inconclusive", "cex": {"twin": "reached"}}
    for p in paths:
        if p.exc is not None:
            return {"status": "cex", "cex": {"raised": repr(p.exc), "l0": 1.0, "l1": 1.0, "l2": 1.0}}
        score, tree = p.result
        got = {n.name: n.length for n in tree.tips()}
        claims = [psx.term(got[k]) == v for k, v in zip("abc", lv)] + [psx.term(score) == z3.Sum(lv)]
        r, m, dt = psx.check_valid(p.assertions, z3.And(*claims))
        if r == "sat":
            return {"status": "cex", "cex": {f"l{i}": psx.model_float(m, lv[i]) for i in range(3)}}
        if r != "unsat":
            return {"status": "inconclusive", "detail": f"z3 {r}"}
    return {"status": "holds", "paths": stats["paths"], "queries": len(paths), "solver_s": round(time.time() - t0, 2)}


# ---------------------------------------------------------------- UPGMA end to end
def mk_upgma(shape_id, n, _replay=None):
    from cogent3 import make_tree
    from cogent3.cluster import UPGMA as U
    from cogent3.core.tree import PhyloNode
    from props import c09

    t0 = time.time()
    shape = [s for s in _binary_unrooted(n) if s["id"] == shape_id][0]
    t = make_tree(treestring=shape["newick"])
    internals = [x for x in t.traverse() if x.children]
    hv = {id(x): z3.Real(f"h{i}") for i, x in enumerate(internals)}
    names = {id(x): f"h{i}" for i, x in enumerate(internals)}
    tips = shape["tips"]
    assumptions = []
    for x in internals:
        assumptions.append(hv[id(x)] > 0)
        assumptions.append(hv[id(x)] < 10**9)
        if x.parent is not None:
            assumptions.append(hv[id(x.parent)] > hv[id(x)])

    def lca_height(a, b, H):
        na, nb = t.get_node_matching_name(a), t.get_node_matching_name(b)
        anc = set()
        x = na
        while x is not None:
            anc.add(id(x))
            x = x.parent
        y = nb
        while id(y) not in anc:
            y = y.parent
        return H[id(y)]

    def clusters_of(node):
        out = {}
        for x in node.traverse():
            if x.children:
                out[frozenset(x.get_tip_names())] = x
        return out

    def run(H, big, wrap):
        Lt = len(tips)
        mat = numpy.zeros((Lt, Lt), dtype=object)
        for i, a in enumerate(tips):
            for j, b in enumerate(tips):
                mat[i, j] = wrap(big) if i == j else 2 * lca_height(a, b, H)
        nodes = [PhyloNode(name=x) for x in tips]
        return U.UPGMA_cluster(mat, nodes, big)

    true_clusters = clusters_of(t)
    if _replay is not None:
        H = {id(x): float(_replay[names[id(x)]]) for x in internals}
        res = run(H, U.BIG_NUM, float)
        got = clusters_of(res)
        bad = []
        if set(got) != set(true_clusters):
            bad.append(f"clusters {sorted(map(sorted, got))} != {sorted(map(sorted, true_clusters))}")
        else:
            for k, node in got.items():
                h = max(c09.pathlen_to_root_from(node, tip) for tip in k)
                hmin = min(c09.pathlen_to_root_from(node, tip) for tip in k)
                want = H[id(true_clusters[k])]
                if abs(h - want) > 1e-9 * max(1, want) or abs(hmin - want) > 1e-9 * max(1, want):
                    bad.append(f"height of {sorted(k)}: {h} != {want}")
        return {"status": "reproduced" if bad else "not_reproduced", "detail": "; ".join(bad)[:400]}

    Hs = {k: psx.SReal(v) for k, v in hv.items()}
    paths, stats = psx.explore(lambda: run(Hs, U.BIG_NUM, psx.const), assumptions, max_paths=20000)
    if not W.reach("end"):
        return {"status": "cex" if any(p.exc is None for p in paths) else "inconclusive", "cex": {"twin": f"{len(paths)} tie-breaking paths"}}
    nq = stats["queries"]
    for p in paths:
        if p.exc is not None:
            s = z3.Solver()
            s.add(*p.assertions)
            s.check()
            return {"status": "cex", "cex": dict({names[k]: psx.model_float(s.model(), v) for k, v in hv.items()}, raised=repr(p.exc))}
        res = p.result
        got = clusters_of(res)
        claims = []
        if set(got) != set(true_clusters):
            # with equal heights several topologies are equally right only if the heights really are equal: none are (strict parent > child)
            claims.append(z3.BoolVal(False))
        else:
            for k, node in got.items():
                want = hv[id(true_clusters[k])]
                for tip in k:
                    claims.append(psx.term(c09.pathlen_to_root_from(node, tip)) == want)
        r, m, dt = psx.check_valid(p.assertions, z3.And(*claims), timeout_ms=120000)
        nq += 1
        if r == "sat":
            return {"status": "cex", "cex": {names[k]: psx.model_float(m, v) for k, v in hv.items()}, "queries": nq}
        if r != "unsat":
            return {"status": "inconclusive", "detail": f"z3 {r}"}
    return {"status": "holds", "paths": stats["paths"], "queries": nq, "detail": f"tips={len(tips)}", "solver_s": round(time.time() - t0, 2)}


# ---------------------------------------------------------------- duplicates: expansion of the unique-sequence table
def mk_expand(n):
    """The estimators are computed for unique sequences only; _PairwiseDistance._expand copies them to the duplicates.
    The duplicate structure (which sequence is a copy of which earlier one) is SYMBOLIC; E1 CrossHair explores every structure.
    Oracle: d(a, b) = 0 if a and b are copies of the same sequence, else the value computed for their two originals."""

    def check(r1: int, r2: int, r3: int, r4: int) -> bool:
        """
        pre: 0 <= r1 <= 1 and 0 <= r2 <= 2 and 0 <= r3 <= 3 and 0 <= r4 <= 4
        post: _
        """
        from cogent3.evolve.fast_distance import _PairwiseDistance

        rep = [0, r1, r2, r3, r4][:n]
        for i in range(n):
            if rep[rep[i]] != rep[i]:
                return True  # not a valid structure: an original is its own representative
        names = ["s%d" % i for i in range(n)]
        uniq = [i for i in range(n) if rep[i] == i]
        if len(uniq) == n:
            return True  # no duplicates: nothing to expand (trivial path)
        # as run() records it: original -> list of later copies, only unique pairs have a statistic
        duped = {}
        for i in range(n):
            if rep[i] != i:
                duped.setdefault(names[rep[i]], []).append(names[i])
        value = lambda i, j: 100 + 10 * min(i, j) + max(i, j)  # distinct, non-zero, symmetric
        pwise = {}
        for i in uniq:
            for j in uniq:
                if i != j:
                    pwise[(names[i], names[j])] = value(i, j)
        calc = object.__new__(_PairwiseDistance)
        calc.names = list(names)
        calc._duped = duped
        got = calc._expand(pwise)
        if not W.reach("end"):
            return False
        if len(uniq) <= n - 2 and not W.reach("two_duplicates"):
            return False
        for i in range(n):
            for j in range(n):
                if i == j:
                    continue
                want = 0 if rep[i] == rep[j] else value(rep[i], rep[j])
                if got.get((names[i], names[j]), None) != want:
                    return False
        return True

    return check


# ---------------------------------------------------------------- LogDet / paralinear (LAPACK det / inv: concrete runs only)
def mk_logdet(which, r):
    """_paralinear / _logdet (with and without the Tamura-Kumar adjustment) on an r x r matrix of SMALL POSITIVE INTEGER counts:
    the matrix is one mixed-radix symbolic integer, realised up front (det / inv are LAPACK calls), the body runs untraced on
    floats and is compared (1e-9 relative) with the published formula evaluated independently: exact rational determinant
    (Fractions, Leibniz expansion), math.log. Floating point, so this is bounded exhaustive checking of the formula's structure
    (coefficients, which frequencies, which r), not of its numerical behaviour."""
    import itertools as _it
    import math
    from fractions import Fraction

    HI = 3 if r == 2 else 2
    NSYM = r * r if r == 2 else r * (r - 1)  # r = 3: the six off-diagonal counts are symbolic, the diagonal is fixed
    TOTAL = HI**NSYM

    def det_exact(M):
        n = len(M)
        tot = Fraction(0)
        for perm in _it.permutations(range(n)):
            sign = 1
            for i in range(n):
                for j in range(i + 1, n):
                    if perm[i] > perm[j]:
                        sign = -sign
            term = Fraction(sign)
            for i in range(n):
                term *= M[i][perm[i]]
            tot += term
        return tot

    NBLOCKS = W.nblocks(TOTAL)

    def check(code: int) -> bool:
        """
        pre: 0 <= code < NBLOCKS
        post: _
        """
        _ = NBLOCKS
        code, untraced = W.concrete(code)  # `code` numbers a block of W.BLOCK consecutive inputs (see vlib.w.nblocks)
        with untraced:
            return W.run_block(code, TOTAL, body)

    def body(code):
        from cogent3.evolve import fast_distance as FD

        cells = []
        for _i in range(NSYM):
            cells.append(code % HI + 1)
            code //= HI
        it = iter(cells)
        # matches dominate, as in real alignments
        J = [[(next(it) + 4 if r == 2 else 5 + i) if i == j else next(it) for j in range(r)] for i in range(r)]
        tot = sum(sum(row) for row in J)
        F = [[Fraction(x, tot) for x in row] for row in J]
        fx = [sum(F[i][j] for j in range(r)) for i in range(r)]  # row sums
        fy = [sum(F[i][j] for i in range(r)) for j in range(r)]  # column sums
        dF = det_exact(F)
        if not W.reach("end"):
            return False
        if dF <= 0:
            return True
        prod = 1.0
        for a_, b_ in zip(fx, fy):
            prod *= float(a_) * float(b_)
        m = numpy.array(J, dtype=float)
        if which == "paralinear":
            got = FD._paralinear(m)[2]
            want = -math.log(float(dF) / math.sqrt(prod)) / r
        elif which == "logdet_tk":
            got = FD._logdet(m, use_tk_adjustment=True)[2]
            g2 = sum(float((a_ + b_) / 2) ** 2 for a_, b_ in zip(fx, fy))
            want = -((1 - g2) / (r - 1)) * math.log(float(dF) / math.sqrt(prod))
        else:
            got = FD._logdet(m, use_tk_adjustment=False)[2]
            want = -math.log(float(dF)) / r - math.log(r)
        if got is None:
            return False
        return abs(float(got) - want) <= 1e-9 * max(1.0, abs(want))

    return check


ENCODED = [
    ("src/cogent3/evolve/fast_distance.py", ["_hamming", "_jc69_from_matrix", "_tn93_from_matrix", "TN93Pair.__init__ (index tables, concrete)", "_PairwiseDistance._expand", "_logdetcommon", "_paralinear", "_logdet (distance, both adjustments)"]),
    ("src/cogent3/phylo/nj.py", ["PartialTree.get_dist_saved_join_score_matrix", "PartialTree.join", "PartialTree.asScoreTreeTuple", "LightweightTreeNode.convert"]),
    ("src/cogent3/cluster/UPGMA.py", ["UPGMA_cluster", "find_smallest_index", "condense_matrix", "condense_node_order"]),
]
BOUNDS = {
    "quick": ["4x4 count matrix of symbolic non-negative reals (counts as reals: the formulas are rational functions of the counts)",
              "NJ: every binary tree shape with 4 and 5 tips, all branch lengths symbolic positive reals; every cherry joined",
              "UPGMA: every binary rooted shape with 3 and 4 tips, node heights symbolic with parent > child > 0 and < 1e9",
              "duplicates: 3..5 sequences, the copy-of structure symbolic (every partition into originals and copies), statistics distinct concrete values (only copied, never computed on)"],
    "thorough": ["4x4 count matrix of symbolic non-negative reals", "NJ: binary shapes with 4..6 tips", "UPGMA: binary rooted shapes with 3..5 tips"],
}
ASSUMPTIONS = [
    "exact real arithmetic stands in for floats; LOG is uninterpreted (equality of distances must follow from equal arguments and coefficients)",
    "TN93: every base has positive frequency in the pair (otherwise the published formula is undefined)",
    "NJ induction: the chosen pair is the first off-diagonal entry in ascending score order; proving cherry-minimality + exact join for every shape with <= N tips gives topology and lengths for trees with <= N tips",
    "UPGMA: strict parent > child heights (positive branch lengths); heights < 1e9 << BIG_NUM",
]
OUTSIDE = ["_paralinear / _logdet on symbolic counts (LAPACK det / inv): only bounded-exhaustive concrete runs on 2x2 and 3x3 count matrices, compared with the published formulas in floats; their variances; 4- and 21-state matrices", "numba pairwise counting kernels", "gnj with keep > 1 (argsort tie handling)", "float rounding and exact ties in floats", "_fill_diversity_matrix and the detection of duplicates in run() (numpy comparisons on count matrices); the expansion of the table to the duplicates IS covered"]
TRUSTED = ["vlib/psx.py", "the published formulas as written in props/c15.py"]


def obligations(tier):
    T = tier == "thorough"
    obs = []
    for w in ("hamming", "jc69", "tn93"):
        obs.append(Ob(f"estimator/{w}", __name__, "mk_estimator", {"which": w}, kind="direct", timeout=900, group="estimators"))
    for n in ([4, 5, 6] if T else [4, 5]):
        for s in _binary_unrooted(n):
            obs.append(Ob(f"nj_step/{s['id']}", __name__, "mk_nj_step", {"shape_id": s["id"], "n": n}, kind="direct", timeout=900, group="nj"))
    obs.append(Ob("nj_final_three", __name__, "mk_nj_final", {}, kind="direct", timeout=300, group="nj"))
    for which in ("paralinear", "logdet_tk", "logdet"):
        for r in (2, 3):
            obs.append(Ob(f"estimator/{which}/r{r}", __name__, "mk_logdet", {"which": which, "r": r}, timeout=1200, group="estimators", grade="realised-input"))
    for n in (3, 4, 5):
        obs.append(Ob(f"expand_duplicates/n{n}", __name__, "mk_expand", {"n": n}, timeout=900, twins=("end", "two_duplicates") if n > 3 else ("end", "two_duplicates"), group="duplicates"))
    for n in ([3, 4, 5] if T else [3, 4]):
        for s in _binary_unrooted(n):
            obs.append(Ob(f"upgma/{s['id']}", __name__, "mk_upgma", {"shape_id": s["id"], "n": n}, kind="direct", timeout=900, group="upgma"))
    return obs


def classify(name, args, cex, rep):
    return None
