"""C03 — alignment-row (Aligned) operations equal the same operations on the gapped string.

Engine E1 (CrossHair). An Aligned = (IndelMap, Sequence view). Its gapped string is read positionally:
    column j  ->  gap | (parent index, strand)
from the real map (C08 oracle) and the real view (C01 oracle); each operation must transform that
reading exactly as it transforms the string. Gap layout, view state and interval are symbolic.
"""
from __future__ import annotations

from typing import Optional

import cogent3.core.location as L
from props import c01, c08
from vlib import w as W
from vlib.core import Ob

PROPERTY_ID = "C03"
ENGINE = 'E1 CrossHair 0.0.110 (z3) on the real code'
TECHNIQUE = 'CrossHair symbolic execution of the real Aligned / IndelMap / SeqView code with symbolic gap layout, view state and interval; the result is read column by column against a string-free oracle (gap | parent index, strand); all paths exhausted per obligation'
CLAIM = (
    "Aligned slicing (slice, int, single-span feature map), reverse complement and concatenation give, column by column, the gapped string operation's result "
    "(gap / parent index / strand), keep map and sequence lengths consistent, for every gap layout with <= G runs, every view state and every interval."
)

setup_symbolic = c08.setup_symbolic


def sem(al, j):
    """(is_gap, parent index, reversed?) of column j of an Aligned, read from its map and its view"""
    gp = [x for x in al.map.gap_pos]
    cl = [x for x in al.map.cum_gap_lengths]
    g, s = c08.ref(gp, cl, j)
    v = al.data._seq
    if g:
        return (True, None, None)  # a gap has no strand
    lo, ln = c01.pyidx(v.seq_len, v.start, v.stop, v.step)
    return (False, lo + s * v.step, v.step < 0)


def consistent(al):
    """the representation invariant of a row: the map describes exactly the view's residues"""
    v = al.data._seq
    lo, ln = c01.pyidx(v.seq_len, v.start, v.stop, v.step)
    gp = [x for x in al.map.gap_pos]
    cl = [x for x in al.map.cum_gap_lengths]
    return al.map.parent_length == ln and len(al.data) == ln and c08.wf(gp, cl, al.map.parent_length)


def make_row(G, p0, p1, l0, l1, tail, n, vs, C):
    """an Aligned whose data is a view (start vs, length = map.parent_length, step C=+-1) on a parent of length n"""
    from cogent3.core.alignment import Aligned
    from cogent3.core.sequence import DnaSequence, SeqView

    gp, gl, plen = c08.layout(G, p0, p1, 0, l0, l1, 0, tail)
    m = c08.mkmap(gp, gl, plen)
    sv = SeqView(seq=c01._parent_seq(n), seqid="s")
    if C > 0:
        sv.start, sv.stop, sv.step = vs, vs + plen, 1
    else:
        # reversed view covering plus-strand [vs, vs+plen): start=-(n-(vs+plen))-1, stop=start-plen
        st = (vs + plen) - n - 1
        sv.start, sv.stop, sv.step = st, st - plen, -1
    seq = DnaSequence(sv, name="s", check=False)
    return Aligned(m, seq), gp, gl, plen


def pre_row(G, p0, p1, l0, l1, tail, n, vs):
    if not c08.pre_layout(G, p0, p1, 0, l0, l1, 0, tail):
        return False
    gp, gl, plen = c08.layout(G, p0, p1, 0, l0, l1, 0, tail)
    return 0 <= vs and vs + plen <= n


def mk_slice(G, C, neg):
    def check(p0: int, p1: int, l0: int, l1: int, tail: int, n: int, vs: int, a: Optional[int], b: Optional[int], j: int) -> bool:
        """
        pre: pre_row(G, p0, p1, l0, l1, tail, n, vs)
        pre: j >= 0
        post: _
        """
        al, gp, gl, plen = make_row(G, p0, p1, l0, l1, tail, n, vs, C)
        alen = len(al)
        if neg:
            aa = 0 if a is None else (a if a >= 0 else a + alen)
            bb = alen if b is None else (b if b >= 0 else b + alen)
        else:
            if a is None or b is None or a < 0 or b < 0:
                return True
            aa, bb = a, b
        if not (0 <= aa <= alen and 0 <= bb <= alen):
            return True
        if not consistent(al):
            return False
        r = al[a:b]
        if not W.reach("end"):
            return False
        want = bb - aa if bb > aa else 0
        if len(r) != want:
            return False
        if want == 0:
            return True
        if not consistent(r):
            return False
        if j >= want:
            return True
        if not W.reach("inside"):
            return False
        return sem(r, j) == sem(al, aa + j)

    return check


_INT_GETITEM = None


def mk_int(G, C):
    def check(p0: int, p1: int, l0: int, l1: int, tail: int, n: int, vs: int, i: int) -> bool:
        """
        pre: pre_row(G, p0, p1, l0, l1, tail, n, vs)
        post: _
        """
        from cogent3.core.alignment import Aligned

        al, gp, gl, plen = make_row(G, p0, p1, l0, l1, tail, n, vs, C)
        alen = len(al)
        if not (0 <= i < alen):
            return True
        impl = Aligned.__dict__["__getitem__"].dispatcher.dispatch(int)
        r = impl(al, i)
        if not W.reach("end"):
            return False
        return len(r) == 1 and consistent(r) and sem(r, 0) == sem(al, i)

    return check


def mk_featuremap(G, C):
    """al[FeatureMap with one span (a,b)] == al[a:b]"""

    def check(p0: int, p1: int, l0: int, l1: int, tail: int, n: int, vs: int, a: int, b: int, j: int) -> bool:
        """
        pre: pre_row(G, p0, p1, l0, l1, tail, n, vs)
        pre: 0 <= a < b and j >= 0
        post: _
        """
        from cogent3.core.alignment import Aligned

        al, gp, gl, plen = make_row(G, p0, p1, l0, l1, tail, n, vs, C)
        alen = len(al)
        if b > alen:
            return True
        fm = L.FeatureMap(spans=[L.Span(a, b)], parent_length=alen)
        impl = Aligned.__dict__["__getitem__"].dispatcher.dispatch(L.FeatureMap)
        r = impl(al, fm)
        if not W.reach("end"):
            return False
        if len(r) != b - a or not consistent(r):
            return False
        if j >= b - a:
            return True
        return sem(r, j) == sem(al, a + j)

    return check


def mk_rc(G, C):
    def check(p0: int, p1: int, l0: int, l1: int, tail: int, n: int, vs: int, j: int) -> bool:
        """
        pre: pre_row(G, p0, p1, l0, l1, tail, n, vs)
        pre: j >= 0
        post: _
        """
        al, gp, gl, plen = make_row(G, p0, p1, l0, l1, tail, n, vs, C)
        alen = len(al)
        r = al.rc()
        if not W.reach("end"):
            return False
        if len(r) != alen or not consistent(r):
            return False
        if j >= alen:
            return True
        g1, i1, s1 = sem(al, alen - 1 - j)
        g2, i2, s2 = sem(r, j)
        # same residue, other strand (so it is displayed complemented); gaps stay gaps
        return g1 == g2 and i1 == i2 and (g1 or s2 == (not s1))

    return check


def mk_rc_slice(G, C):
    """two-step history: rc then slice (covers the composition of the two mechanisms)"""

    def check(p0: int, p1: int, l0: int, l1: int, tail: int, n: int, vs: int, a: int, b: int, j: int) -> bool:
        """
        pre: pre_row(G, p0, p1, l0, l1, tail, n, vs)
        pre: 0 <= a < b and j >= 0
        post: _
        """
        al, gp, gl, plen = make_row(G, p0, p1, l0, l1, tail, n, vs, C)
        alen = len(al)
        if b > alen:
            return True
        r = al.rc()[a:b]
        if not W.reach("end"):
            return False
        if len(r) != b - a or not consistent(r):
            return False
        if j >= b - a:
            return True
        g1, i1, s1 = sem(al, alen - 1 - (a + j))
        g2, i2, s2 = sem(r, j)
        return g1 == g2 and i1 == i2 and (g1 or s2 == (not s1))

    return check


def mk_add_self(G, C):
    """row + row (identical object on both sides, as in `aln + aln`): the string is doubled.
    Content is concrete here because concatenation of different data goes through strings."""

    def check(p0: int, l0: int, tail: int) -> bool:
        """
        pre: 0 <= p0 <= 3 and 1 <= l0 <= 2 and 0 <= tail <= 2
        post: _
        """
        from cogent3.core.alignment import Aligned
        from cogent3.core.moltype import DNA

        plen = p0 + tail
        text = "ACGTAC"[:plen]
        gapped = text[:p0] + "-" * l0 + text[p0:]
        m, s = DNA.make_seq(seq=gapped, name="s").parse_out_gaps()
        al = Aligned(m, s)
        if C < 0:
            al = al.rc()
        want = str(al) + str(al)
        r = al + al
        if not W.reach("end"):
            return False
        return str(r) == want and len(r) == 2 * len(al)

    return check


def mk_convert(C, target, p0, l0, tail):
    """row.to_rna() / to_dna() / to_moltype(): only T <-> U changes, whatever strand / slice the row has.
    Content and gap layout are concrete (conversion inspects characters); the slice is chosen by the solver."""
    plen = p0 + tail
    alen = plen + l0

    def check(a: int, b: int) -> bool:
        """
        pre: 0 <= a <= b <= alen
        post: _
        """
        from cogent3.core.alignment import Aligned
        from cogent3.core.moltype import DNA, RNA

        _ = alen
        src = DNA if target == "rna" else RNA
        text = ("ACGTRY" if target == "rna" else "ACGURY")[:plen]
        gapped = text[:p0] + "-" * l0 + text[p0:]
        m, s = src.make_seq(seq=gapped, name="s").parse_out_gaps()
        # same map, in the array dtype the solver run needs (object) / the code's own dtype in plain replay
        m = L.IndelMap(gap_pos=W.arr([int(x) for x in m.gap_pos], c08._GAP_DT), cum_gap_lengths=W.arr([int(x) for x in m.cum_gap_lengths], c08._GAP_DT), parent_length=m.parent_length)
        al = Aligned(m, s)[a:b]
        if C < 0:
            al = al.rc()
        before = str(al)
        r = al.to_rna() if target == "rna" else al.to_dna()
        r2 = al.to_moltype(target)
        if not W.reach("end"):
            return False
        want = before.replace("T", "U") if target == "rna" else before.replace("U", "T")
        return str(r) == want and str(r2) == want and len(r) == len(al)

    return check


ENCODED = [
    ("src/cogent3/core/alignment.py", ["Aligned.to_rna", "Aligned.to_dna", "Aligned.to_moltype", "Aligned.__init__", "Aligned.__getitem__(slice|int|FeatureMap single span)", "Aligned.rc", "Aligned.__len__", "Aligned.__add__"]),
    ("src/cogent3/core/location.py", ["IndelMap.__getitem__", "IndelMap.get_seq_index", "IndelMap.nucleic_reversed", "IndelMap.__add__"]),
    ("src/cogent3/core/sequence.py", ["Sequence.__getitem__", "NucleicAcidSequence.rc", "SeqView slicing (SliceRecordABC)", "Sequence.__len__"]),
]
BOUNDS = {
    "quick": ["gap runs per row G <= 2; row's sequence view on either strand (step +1 / -1) at any start inside a parent of any length; interval ends and probe column unbounded",
              "concatenation: concrete content <= 6 residues, one gap run at a symbolic position; DNA/RNA conversion: 3 concrete gapped rows, symbolic slice, both strands"],
    "thorough": ["gap runs per row G <= 2 (slice also with negative / None bounds); both strands; all integers unbounded", "concatenation as quick"],
}
ASSUMPTIONS = c08.ASSUMPTIONS[:3] + [
    "rows satisfy the representation invariant: map.parent_length == len(sequence view), view step +-1",
    "sequence content is never inspected in the slice / rc obligations (positions are compared); the parent is a stub of symbolic length under the solver and a distinct-character string in plain replay",
    "slice intervals lie inside the row (after Python's negative-index translation)",
]
OUTSIDE = [
    "everything that inspects characters through numpy arrays: take_positions, filtered, no_degenerates, omit_gap_pos, get_degapped_relative_to, to_type, ArrayAlignment as a whole; agreement of the two alignment classes is NOT claimed",
    "multi-span feature-map indexing of a row (goes through strings)", "strided row slices", "collection-level operations (take_seqs, add_seqs, ...)",
]
TRUSTED = ["the C08 gap-run reader and the C01 slice model (both separately validated)"]


def obligations(tier):
    T = tier == "thorough"
    obs = []
    for C in (1, -1):
        for G in (0, 1, 2):
            obs.append(Ob(f"slice/G{G}/C{C}", __name__, "mk_slice", {"G": G, "C": C, "neg": False}, timeout=1200, twins=("end", "inside"), group="slice"))
            if T and G <= 1:
                obs.append(Ob(f"slice_neg_none/G{G}/C{C}", __name__, "mk_slice", {"G": G, "C": C, "neg": True}, timeout=1800, twins=("end", "inside"), group="slice"))
            obs.append(Ob(f"int/G{G}/C{C}", __name__, "mk_int", {"G": G, "C": C}, timeout=900, group="slice"))
            obs.append(Ob(f"featuremap/G{G}/C{C}", __name__, "mk_featuremap", {"G": G, "C": C}, timeout=1200, group="slice"))
            obs.append(Ob(f"rc/G{G}/C{C}", __name__, "mk_rc", {"G": G, "C": C}, timeout=900, group="rc"))
            if G <= 1 or T:
                obs.append(Ob(f"rc_then_slice/G{G}/C{C}", __name__, "mk_rc_slice", {"G": G, "C": C}, timeout=1200, group="rc"))
        obs.append(Ob(f"add_self/C{C}", __name__, "mk_add_self", {"G": 1, "C": C}, timeout=900, group="concat"))
        for target in ("rna", "dna"):
            for p0, l0, tail in ((0, 1, 3), (2, 2, 2), (4, 1, 0)):
                obs.append(Ob(f"convert/{target}/C{C}/gap{p0}_{l0}_{tail}", __name__, "mk_convert", {"C": C, "target": target, "p0": p0, "l0": l0, "tail": tail}, timeout=900, group="convert"))
    from props import c03_columns

    for op in c03_columns.COL_OPS:
        for arr in (False, True):
            # separate module = separate worker processes: this module's setup_symbolic rebinding (object-dtype gap arrays, stub
            # spans) must not be active when whole alignments are constructed the ordinary way
            obs.append(Ob(f"columns/{op}/{'ArrayAlignment' if arr else 'Alignment'}", "props.c03_columns", "mk_columns", {"op": op, "array_align": arr, "nsym": 3}, timeout=1800, group="columns", grade="realised-input"))
    return obs


def classify(name, args, cex, rep):
    if name.startswith("columns/omit/"):
        return "take_positions:negate-passes-a-list-to-make_seq"
    if name.startswith("add_self"):
        return "Aligned.__add__:same-data-branch"
    return None
