#!/bin/bash
# Build the overlay venv (offline). Idempotent.
set -e
V=/verif/.venv
if [ ! -x "$V/bin/python" ] || ! "$V/bin/python" -c "import crosshair, z3" 2>/dev/null; then
  rm -rf "$V"
  /venv/bin/python -m venv "$V"
  echo "import site; site.addsitedir('/venv/lib/python3.12/site-packages')" > "$V/lib/python3.12/site-packages/_base.pth"
  PIP_NO_INDEX=1 "$V/bin/pip" install -q --no-index --find-links /opt/veriftools/wheels crosshair-tool z3-solver >/dev/null 2>&1
  PIP_NO_INDEX=1 "$V/bin/pip" install -q --no-index --find-links /opt/veriftools/wheels cvc5 >/dev/null 2>&1 || true
fi
"$V/bin/python" -c "import crosshair, z3, cogent3, numpy" 
