#!/bin/bash
# usage: tools/try_seed_wt.sh <ID> <dir with patch.diff> [extra check args]
# like try_seed.sh, but leaves /repo alone: the seeded change is applied to a scratch worktree of /repo's HEAD and the check is
# pointed at it with VERIF_REPO (used while long runs against /repo are in progress; keep-decisions are re-run with try_seed.sh).
ID=$1; DIR=$2; shift 2
WT=/tmp/wtT_${ID}_$$
git -C /repo worktree add --detach $WT HEAD -q || exit 2
trap 'git -C /repo worktree remove --force '$WT' >/dev/null 2>&1; git -C /repo worktree prune' EXIT
git -C $WT apply "$DIR/patch.diff" || { echo "patch does not apply"; exit 2; }
cd /verif
VERIF_REPO=$WT NUMBA_CACHE_DIR=$WT/.numba_cache VERIF_EVIDENCE_DIR=/tmp/seed_evidence ./check $ID "$@" > /tmp/seed_run_$ID.log 2>&1
rc=$?
grep -v WARN /tmp/seed_run_$ID.log | grep "^VIOLATION\|^KNOWN\|tier=" | cut -c1-220
grep "^\[$ID\]" /tmp/seed_run_$ID.log | grep -v discharged | cut -c1-150 | head -8
echo "exit=$rc"
exit $rc
