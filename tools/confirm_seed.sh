#!/bin/bash
# usage: tools/confirm_seed.sh <ID> [suite|nosuite] [round]  (expects /tmp/wt_<ID> worktree and /tmp/seed_<ID>/{patch.diff,demo.py})
# confirms: patch applies to a clean worktree, demo fails with it and passes without, pinned test-suite passes with it.
ID=$1; R=${3:-}; WT=/tmp/wt${R}_$ID; SD=/tmp/seed${R}_$ID   # R: round suffix, e.g. 2 -> /tmp/wt2_<ID>, /tmp/seed2_<ID>
cd $WT || exit 2
git checkout -q -- . ; git clean -qfd -e .pytest_cache >/dev/null 2>&1
PYTHONPATH=$WT/src /venv/bin/python $SD/demo.py > $SD/demo_clean.out 2>&1; c=$?
git apply $SD/patch.diff || { echo "patch does not apply"; exit 2; }
PYTHONPATH=$WT/src NUMBA_CACHE_DIR=$SD/numba /venv/bin/python $SD/demo.py > $SD/demo_mut.out 2>&1; m=$?
echo "demo: clean exit=$c mutant exit=$m"
if [ "$2" = "suite" ]; then
  PYTHONPATH=$WT/src NUMBA_CACHE_DIR=$SD/numba /venv/bin/python -m pytest -q -p no:cacheprovider --timeout=900 --continue-on-collection-errors -x --deselect tests/test_app/test_evo.py::test_get_app_tree_is_url --deselect tests/test_parse/test_sequence.py::test_line_based_url --deselect tests/test_util/test_io.py::test_open_url --deselect tests/test_util/test_io.py::test_open_url_compressed -n 6 > $SD/suite.out 2>&1
  tail -1 $SD/suite.out
fi
