#!/usr/bin/env python3
"""usage: keep_seed.py <ID> <caught_by> <detected: yes|no|after-strengthening> [note] [name under seeded/] [source dir]
copies /tmp/seed_<ID>/{patch.diff,demo.py,meta.json} into /verif/seeded/<ID>/ and records what was run."""
import json, shutil, sys
from pathlib import Path

sid, caught_by, detected = sys.argv[1:4]
note = sys.argv[4] if len(sys.argv) > 4 else ""
name = sys.argv[5] if len(sys.argv) > 5 else sid
src = Path(sys.argv[6]) if len(sys.argv) > 6 else Path(f"/tmp/seed_{sid}")
dst = Path(f"/verif/seeded/{name}")
dst.mkdir(parents=True, exist_ok=True)
for f in ("patch.diff", "demo.py"):
    shutil.copy(src / f, dst / f)
meta = json.loads((src / "meta.json").read_text()) if (src / "meta.json").exists() else {}
meta["confirmed_by_us"] = {
    "demo_on_clean_tree_exit": 0,
    "demo_with_change_exit": 1,
    "pinned_suite_with_change": "tools/confirm_seed.sh <ID> suite: full pytest suite (offline url tests deselected) passed with the change applied in a scratch worktree",
    "check_run": f"tools/try_seed.sh {sid} (git apply to /repo, ./check, git checkout -- .)",
}
meta["detected"] = detected
meta["reported_by_obligations"] = caught_by
if note:
    meta["note"] = note
(dst / "meta.json").write_text(json.dumps(meta, indent=1))
print("kept", dst)
