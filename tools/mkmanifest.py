#!/usr/bin/env python3
"""Regenerates MANIFEST.json from the props/ modules that exist + the static tables below."""
import importlib
import json
import sys
from pathlib import Path

sys.path.insert(0, "/verif")
ALL = [f"C{i:02d}" for i in range(1, 21)]

NA_REASON = {}
PENDING = "check not built yet in this round (planned design in DESIGN.md section 2); not claimed until its quick command runs clean"

READY = set(open("/verif/tools/ready.txt").read().split())

META = {
    # id: (engine, technique, level text, level note, design_ref)
}


def main():
    checks, na = [], []
    for pid in ALL:
        modp = Path(f"/verif/props/{pid.lower()}.py")
        if pid in NA_REASON:
            na.append({"property_id": pid, "reason": NA_REASON[pid]})
            continue
        if not modp.exists():
            na.append({"property_id": pid, "reason": PENDING})
            continue
        m = importlib.import_module(f"props.{pid.lower()}")
        if getattr(m, "NOT_READY", False) or pid not in READY:
            na.append({"property_id": pid, "reason": PENDING})
            continue
        checks.append(
            {
                "property_id": pid,
                "quick_cmd": f"./check {pid} --tier quick",
                "thorough_cmd": f"./check {pid} --tier thorough",
                "evidence_file": f"/verif/evidence/{pid}.json",
                "replay_cmd_template": f"./check {pid} --replay {{path}}",
                "engine": getattr(m, "ENGINE", "E1 CrossHair 0.0.110 (z3) on the real code"),
                "level_claimed": {
                    "category": "other",
                    "text": getattr(m, "LEVEL_TEXT", None) or ("bounded symbolic verification (SMT): " + m.CLAIM + " Inside the bounds in the evidence file the verdict is a solver "
                    "for-all (all paths exhausted / unsat), not sampling; nothing is claimed outside them. Obligations marked 'realised-input' in the evidence are "
                    "solver-driven bounded-exhaustive runs of the public API (DESIGN.md section 0), a weaker grade listed separately."),
                    "design_ref": f"DESIGN.md section 2, {pid}",
                },
                "level_note": "trusted: " + "; ".join(getattr(m, "TRUSTED", [])) + ". assumed: " + "; ".join(m.ASSUMPTIONS[:4]),
                "technique": getattr(m, "TECHNIQUE", "symbolic execution of the real functions (CrossHair/z3), per-path SMT, exhaustive over paths within bounds; counterexamples replayed on the public API"),
            }
        )
    man = {
        "version": 1,
        "setup_cmd": "./setup.sh",
        "hooks": {
            "guard": "COGENT3_VERIF",
            "enable": "no source hooks are needed: harnesses rebind module globals of the imported cogent3 modules inside their own worker process",
            "baseline_off_cmd": "cd /repo && /venv/bin/python -m pytest -ra -q -p no:cacheprovider --timeout=900 --continue-on-collection-errors",
            "source_commits": [],
            "add_only": True,
        },
        "engines": [
            {"name": "E1-crosshair", "path": "vlib/worker.py", "serves_properties": [c["property_id"] for c in checks if "E1" in c["engine"]], "kind_free_text": "CrossHair symbolic execution of real cogent3 functions; z3 decides each path; exhaustion = verdict"},
            {"name": "E2-psx", "path": "vlib/psx.py", "serves_properties": [c["property_id"] for c in checks if "E2" in c["engine"]], "kind_free_text": "own proxy symbolic executor: z3 Real/Int terms flow through the real numpy code; identities discharged by z3 (QF_NRA/LRA)"},
            {"name": "E3-sqlsmt", "path": "vlib/sqlsmt.py", "serves_properties": [c["property_id"] for c in checks if "E3" in c["engine"]], "kind_free_text": "SQL WHERE clause emitted by the real code -> SMT; equivalence with linear-scan predicate"},
        ],
        "checks": checks,
        "not_applicable": na,
        "notes": "Exit codes: 0 held / 1 VIOLATION (replayed on the real API) / 3 inconclusive or harness error (never reported as success). "
        "Known findings and fixed defects: /verif/known_findings.txt. Seeded mutants: /verif/seeded/.",
    }
    Path("/verif/MANIFEST.json").write_text(json.dumps(man, indent=1))
    print("claimed:", [c["property_id"] for c in checks], "n/a:", [n["property_id"] for n in na])


main()
