#!/bin/bash
# Runs the repository's pinned test suite (guard off) and compares with BASELINE.json stable_pass.
OUT=${1:-/tmp/baseline_run}
mkdir -p $OUT
cd /repo && /venv/bin/python -m pytest -ra -q -p no:cacheprovider --timeout=900 --continue-on-collection-errors --junitxml=$OUT/run.junit.xml > $OUT/pytest.log 2>&1
python3 /w/lib/parse_tests.py --kind junit --glob "$OUT/run.junit.xml" --out $OUT/parsed.json >/dev/null 2>&1 || true
python3 - <<PY
import json
b=json.load(open('/root/.vp/BASELINE.json'))
try:
    r=json.load(open('$OUT/parsed.json'))
except Exception as e:
    print('cannot parse', e); raise SystemExit(2)
passed=set(r['passed']); stable=set(b['stable_pass'])
missing=sorted(stable-passed)
print('stable_pass', len(stable), 'passed now', len(passed), 'missing', len(missing))
for m in missing[:40]: print('  MISSING', m)
raise SystemExit(1 if missing else 0)
PY
