#!/bin/bash
# usage: tools/try_seed.sh <ID> <dir with patch.diff> [extra check args]
# applies the seeded change to /repo, runs the property's quick check with evidence redirected, reverts /repo.
ID=$1; DIR=$2; shift 2
cd /repo || exit 2
if ! git diff --quiet; then echo "/repo has uncommitted changes"; exit 2; fi
git apply "$DIR/patch.diff" || { echo "patch does not apply"; exit 2; }
trap 'git -C /repo checkout -- .' EXIT
cd /verif
VERIF_EVIDENCE_DIR=/tmp/seed_evidence ./check $ID "$@" > /tmp/seed_run_$ID.log 2>&1
rc=$?
grep -v WARN /tmp/seed_run_$ID.log | grep "^VIOLATION\|^KNOWN\|tier=" | cut -c1-220
grep "^\[$ID\]" /tmp/seed_run_$ID.log | grep -v discharged | cut -c1-150 | head -8
echo "exit=$rc"
exit $rc
